"""C09 / C11 (HTTP response leg): handler programs generated from HttpResponse.tla, executed on the real
nbhttp.Response by harness/cmd/httpresp, validated by TLC against RespMon.tla."""
import json
import random

from . import common, graph
from .common import Infra

CFG = """SPECIFICATION Spec
CONSTANTS
  Sizes = {%(sizes)s}
  MaxWrites = %(mw)d
  CLs = {%(cls)s}
  MaxFlush = %(mf)d
INVARIANT TypeOK
CHECK_DEADLOCK FALSE
"""


def intent_of(st):
    return {"code": st["code"], "body": st["written"], "ct": st["ct"], "xh": st["xh"],
            "trailer": ("set" if st["trset"] else "empty") if st["trdecl"] else "none",
            "clen": st["clen"], "te": st["te"]}


def variants(ops, intent, rnd):
    """A program as generated, plus (if it declares no framing itself) the same program with an exact
    Content-Length, and one whose last write overflows the declared length."""
    out = [(ops, intent, "plain")]
    if intent["clen"] == -1 and not intent["te"] and intent["trailer"] == "none" and intent["body"] > 0:
        i2 = dict(intent)
        i2["clen"] = intent["body"]
        out.append(([{"k": "cl", "n": intent["body"]}] + ops, i2, "cl"))
        widx = [i for i, o in enumerate(ops) if o["k"] in ("w", "ws") and o["n"] > 0]
        if len(widx) >= 2:
            last = widx[-1]
            o3 = [dict(o) for o in ops]
            o3[last]["k"] = "wover"
            cl = intent["body"] - ops[last]["n"]
            if cl > 0:
                i3 = dict(intent)
                i3["clen"] = cl
                i3["body"] = cl
                out.append(([{"k": "cl", "n": cl}] + o3, i3, "wover"))
    return out


def gen_programs(res, scratch, focus, tier, seed):
    rnd = random.Random(seed * 7 + 1)
    base = []
    # exhaustive small space
    g, r = graph.tlc_graph(scratch, "HttpResponse", CFG % dict(sizes="0, 5", mw=2, cls="5", mf=1), timeout=900)
    res.add_model("httpresponse-small", r)
    for n, raw in g.state.items():
        if 'stage = \\"done\\"' in raw or 'stage = "done"' in raw:
            st = g.st(n)
            base.append(([{"k": o["k"], "n": o["n"]} for o in st["prog"]], intent_of(st), "small"))
    # threshold-centred sizes, sampled by TLC's simulator
    sizes = "0, 1, 100, 64000, 65300, 65400, 65535, 65536, 65537, 131072, 200000"
    num = 700 if tier == "quick" else 8000
    behs, _ = common.tlc_simulate(scratch, "HttpResponse", cfg_text=CFG % dict(sizes=sizes, mw=3, cls="65536, 131072", mf=2),
                                  num=num, depth=10, seed=seed)
    seen = set()
    for beh in behs:
        hdr, st = beh[-1]
        if st.get("stage") != "done":
            continue
        ops = [{"k": o["k"], "n": o["n"]} for o in st["prog"]]
        key = json.dumps(ops)
        if key in seen:
            continue
        seen.add(key)
        base.append((ops, intent_of(st), "sim"))
    nsmall = len(base) - len(seen)
    cap_small = 1200 if tier == "quick" else 20000
    if nsmall > cap_small:
        small = [b for b in base if b[2] == "small"]
        rnd.shuffle(small)
        base = small[:cap_small] + [b for b in base if b[2] != "small"]
        res.notes.append("small space: %d of %d programs (seeded subset in this tier)" % (cap_small, nsmall))
    res.notes.append("%d base programs (%d from the enumerated small space)" % (len(base), sum(1 for b in base if b[2] == "small")))
    progs = []
    reqs = [("1.1", ""), ("1.1", "close"), ("1.0", ""), ("1.0", "keep-alive")]
    for bi, (ops, intent, src) in enumerate(base):
        for (o2, i2, vname) in variants(ops, intent, rnd):
            for (proto, conn) in (reqs if tier == "thorough" else [reqs[bi % 4], reqs[(bi + 1) % 4]]):
                it = dict(i2)
                if proto == "1.0" and (it["trailer"] != "none" or it["te"]):
                    continue      # trailers / an explicit chunked encoding on HTTP/1.0: the handler's fault, no defined outcome
                progs.append({"id": "%s#%d-%s-%s%s" % (src, bi, vname, proto, "-" + conn if conn else ""), "focus": focus,
                              "proto": proto, "conn": conn, "ops": o2, "intent": it, "fail": 0, "variant": vname,
                              "shape": " ".join(o["k"] + (":big" if o["n"] >= 60000 else "") for o in o2)})
    if focus == "C11":
        # error injection: the k-th write to the connection fails
        extra = []
        for p in progs:
            if rnd.random() < 0.5:
                q = dict(p)
                q["fail"] = rnd.randrange(1, 4)
                q["id"] = p["id"] + "-fail%d" % q["fail"]
                extra.append(q)
        progs += extra
    return progs


def run_focus(res, scratch, focus, *, tier, seed, replay):
    res.coverage["rule"] = ("cases = handler programs (every program of the small HttpResponse.tla space + simulator samples "
                            "with write sizes at / around the 64 KiB flush threshold; each also with an exact Content-Length "
                            "and with an overflowing last write) x request variants (HTTP/1.1, 1.1 close, 1.0, 1.0 "
                            "keep-alive)%s; non-trivial = program with at least one body write" %
                            (" x failing connection writes" if focus == "C11" else ""))
    res.assumptions += ["the response is produced by the real Parser/ServerProcessor/Response over an in-memory connection and "
                        "decoded by net/http's ReadResponse",
                        "C11: ownership is observed at the allocator interface (mempool.DefaultMemPool); reads of freed "
                        "memory are visible only as poison on the wire"]
    ov = common.make_overlay(scratch, shim=[])
    binary = common.go_build(scratch, "./cmd/httpresp", overlay=ov, name="httpresp")
    if replay:
        progs = [json.load(open(replay))["script"]]
        progs[0]["focus"] = focus
    else:
        progs = gen_programs(res, scratch, focus, tier, seed)
        res.coverage["exhaustive"] = True
    pp = scratch.fresh("progs") + ".ndjson"
    common.write_ndjson(pp, progs)
    tp = scratch.fresh("trace") + ".ndjson"
    rc, out, dt = common.run([binary, "-programs", pp, "-trace", tp], timeout=3000)
    if rc != 0:
        raise Infra("httpresp failed rc=%d: %s" % (rc, out[-2000:]))
    res.coverage["evaluations"] += len(progs)
    res.coverage["distinct_nontrivial"] += sum(1 for p in progs if any(o["k"] in ("w", "ws", "rf", "wover") and o["n"] > 0 for o in p["ops"]))
    viol, stats = common.tlc_validate(scratch, "RespMonTrace", tp, timeout=3000)
    res.coverage["traces_validated_against_impl"] += stats.get("scenarios", 0)
    res.coverage["trace_events_validated"] = stats.get("events", 0)
    byid = {p["id"]: p for p in progs}
    if viol:
        events = common.read_ndjson(tp)
        for v in viol:
            i = v["line"] - 1
            while i >= 0 and events[i].get("ev") != "reset":
                i -= 1
            pid = events[i].get("id")
            sc = byid.get(pid, {})
            chunked = (sc.get("proto") == "1.1" and sc.get("intent", {}).get("clen", -1) == -1)
            res.report({"property": focus, "program": pid, "why": v["why"], "event": v["ev"], "proto": sc.get("proto"),
                        "conn": sc.get("conn"), "variant": sc.get("variant"), "shape": sc.get("shape"),
                        "framing": "chunked" if chunked else "identity", "fail": sc.get("fail"),
                        "has_rf": any(o["k"] == "rf" for o in sc.get("ops", [])),
                        "has_flush": any(o["k"] == "flush" for o in sc.get("ops", [])),
                        "has_big": any(o["n"] >= 60000 for o in sc.get("ops", []) if o["k"] in ("w", "ws", "rf", "wover")),
                        "trailer": sc.get("intent", {}).get("trailer"),
                        "script": sc, "trace": events[i:v["line"]][-12:], "replay_key": {"ops": sc.get("ops"), "proto": sc.get("proto"),
                                                                                       "conn": sc.get("conn"), "fail": sc.get("fail"), "why": v["why"]}})
    for p in progs[:2]:
        res.sample({"program": p["id"], "ops": p["ops"], "intent": p["intent"]})
