"""C06 / C07 / C08: cases generated from HttpMsg.tla, run by harness/cmd/httpparse, validated by TLC
against HttpMon.tla."""
import json
import random

from . import common, httpgen
from .common import Infra
from .httpgen import b64, render

RULE = {
    "C06": "cases = byte streams (every message of the small HttpMsg grammar, sampled messages of the rich grammar, "
           "pipelines of 2-3 of them, and their malformed neighbours) x segmentations (every single cut, byte-at-a-time, "
           "seeded multi-cuts); non-trivial = stream with more than two parse events and at least one segmentation",
    "C07": "cases = well-formed byte streams (single messages and pipelines) compared three ways (nbhttp / net/http / spec "
           "meaning); non-trivial = every case with at least one message in the agreed domain",
    "C08": "cases = malformed inputs (each rejection the statement names, applied at every position of generated "
           "messages), truncations, random bytes, oversized tokens/bodies under small limits, in several feed sizes; "
           "non-trivial = all of them (each exercises an error path or a bound)",
}


def build(scratch):
    ov = common.make_overlay(scratch, shim=[])
    return common.go_build(scratch, "./cmd/httpparse", overlay=ov, name="httpparse")


def gen_cases(res, scratch, focus, tier, seed):
    rnd = random.Random(seed * 9176 + 11)
    cases = []
    for side in ("server", "client"):
        msgs = httpgen.messages(res, scratch, side, rich_samples=400 if tier == "quick" else 4000, seed=seed, tier=tier)
        res.notes.append("%s: %d messages (%d exhaustive small grammar)" % (side, len(msgs), sum(1 for m in msgs if m["src"] == "small")))
        # streams: singles + pipelines
        streams = [[m] for m in msgs]
        for _ in range(len(msgs) // 2 if tier == "quick" else len(msgs) * 2):
            k = rnd.choice((2, 2, 3))
            streams.append([rnd.choice(msgs) for _ in range(k)])
        if focus == "C06":
            limit = 700 if tier == "quick" else 6000
            rnd.shuffle(streams)
            for si, st in enumerate(streams[:limit]):
                data = b"".join(render(m["wire"]) for m in st)
                cases.append({"id": "%s-ok#%d" % (side, si), "mode": "C06", "side": side, "data": b64(data),
                              "cuts": httpgen.cut_sets(len(data), rnd, singles=len(data) <= 400, multi=8 if tier == "quick" else 32)})
            # malformed neighbours
            nb = 0
            for m in rnd.sample(msgs, min(len(msgs), 60 if tier == "quick" else 600)):
                for name, w in httpgen.mutate_mustreject(m["wire"]):
                    if rnd.random() < (0.35 if tier == "quick" else 1.0):
                        data = render(w) + render(rnd.choice(msgs)["wire"])
                        cases.append({"id": "%s-bad#%d-%s" % (side, nb, name), "mode": "C06", "side": side, "data": b64(data),
                                      "cuts": httpgen.cut_sets(len(data), rnd, singles=len(data) <= 300, multi=6)})
                        nb += 1
        elif focus == "C07":
            limit = 3000 if tier == "quick" else 40000
            rnd.shuffle(streams)
            for si, st in enumerate(streams[:limit]):
                data = b""
                spec = []
                for m in st:
                    data += render(m["wire"])
                    spec.append(httpgen.meaning(side, m["msg"], len(data)))
                cases.append({"id": "%s#%d" % (side, si), "mode": "C07", "side": side, "data": b64(data), "spec": spec})
        else:
            # C08 (a) must-reject mutations at every position, followed by a well-formed message, 3 feed sizes
            nb = 0
            for m in rnd.sample(msgs, min(len(msgs), 80 if tier == "quick" else 800)):
                pre = rnd.choice(msgs) if rnd.random() < 0.3 else None
                for name, w in httpgen.mutate_mustreject(m["wire"]):
                    data = (render(pre["wire"]) if pre else b"") + render(w) + render(rnd.choice(msgs)["wire"])
                    for chunk in (0, 1, 7):
                        cases.append({"id": "%s-reject#%d-%s-c%d" % (side, nb, name, chunk), "mode": "C08", "side": side + "-full",
                                      "data": b64(data), "mustreject": True, "okbefore": 1 if pre else 0, "chunk": chunk})
                    nb += 1
            # (b) truncations and random corruption: either outcome, never a panic / callback after error
            for i in range(300 if tier == "quick" else 5000):
                m = rnd.choice(msgs)
                data = bytearray(render(m["wire"]) + render(rnd.choice(msgs)["wire"]))
                for _ in range(rnd.randrange(1, 4)):
                    pos = rnd.randrange(len(data))
                    op = rnd.randrange(3)
                    if op == 0:
                        data[pos] = rnd.randrange(256)
                    elif op == 1:
                        del data[pos]
                    else:
                        data[pos:pos] = bytes([rnd.choice(b"\r\n :;,\x00\xff0a")])
                cases.append({"id": "%s-fuzz#%d" % (side, i), "mode": "C08", "side": side, "data": b64(bytes(data)),
                              "chunk": rnd.choice((0, 1, 3, 16))})
            # (c) bounds: small ReadLimit with oversized tokens, dripped; small MaxHTTPBodySize with big bodies
            if side == "server":
                for rl in (16, 64, 256):
                    for tok in ("target", "hvalue", "hname", "method"):
                        for chunk in (1, 5, 50):
                            big = b"a" * (rl * 3)
                            if tok == "target":
                                data = b"GET /" + big + b" HTTP/1.1\r\nHost: x\r\n\r\n"
                            elif tok == "hvalue":
                                data = b"GET / HTTP/1.1\r\nHost: " + big + b"\r\n\r\n"
                            elif tok == "hname":
                                data = b"GET / HTTP/1.1\r\n" + big + b": x\r\n\r\n"
                            else:
                                data = big + b" / HTTP/1.1\r\n\r\n"
                            cases.append({"id": "limit-rl%d-%s-c%d" % (rl, tok, chunk), "mode": "C08", "side": "server",
                                          "data": b64(data), "readlimit": rl, "chunk": chunk})
                # both limits set, MaxHTTPBodySize larger than ReadLimit: ReadLimit still bounds what is retained
                for rl, mb in ((64, 4096), (32, 100000)):
                    for chunk in (1, 9):
                        for data in (b"GET /" + b"a" * (rl * 4) + b" HTTP/1.1\r\nHost: x\r\n\r\n",
                                     b"POST / HTTP/1.1\r\nHost: " + b"h" * (rl * 4) + b"\r\nContent-Length: 3\r\n\r\nabc"):
                            cases.append({"id": "limit-both-rl%d-mb%d-c%d-%d" % (rl, mb, chunk, len(data)), "mode": "C08",
                                          "side": "server", "data": b64(data), "readlimit": rl, "maxbody": mb, "chunk": chunk})
                for mb in (10, 128, 1000):
                    for kind in ("cl", "chunked1", "chunkedN"):
                        for extra in (0, 1, 500):
                            n = mb + extra
                            if kind == "cl":
                                data = b"POST / HTTP/1.1\r\nContent-Length: %d\r\n\r\n" % n + b"x" * n
                            elif kind == "chunked1":
                                data = b"POST / HTTP/1.1\r\nTransfer-Encoding: chunked\r\n\r\n%x\r\n" % n + b"x" * n + b"\r\n0\r\n\r\n"
                            else:
                                piece = max(1, n // 3)
                                body = b""
                                left = n
                                while left > 0:
                                    k = min(piece, left)
                                    body += b"%x\r\n" % k + b"x" * k + b"\r\n"
                                    left -= k
                                data = b"POST / HTTP/1.1\r\nTransfer-Encoding: chunked\r\n\r\n" + body + b"0\r\n\r\n"
                            for chunk in (0, 3, 64):
                                cases.append({"id": "limit-mb%d-%s+%d-c%d" % (mb, kind, extra, chunk), "mode": "C08",
                                              "side": "server-full", "data": b64(data), "maxbody": mb, "chunk": chunk})
    return cases


def run_focus(res, scratch, focus, *, tier, seed, replay):
    res.coverage["rule"] = RULE[focus]
    res.assumptions += ["the parser is driven through its public Parse / Processor interface with an in-memory connection",
                        "net/http of the installed Go toolchain is the reference for C07"]
    binary = build(scratch)
    if replay:
        cases = [json.load(open(replay))["script"]]
    else:
        cases = gen_cases(res, scratch, focus, tier, seed)
        res.coverage["exhaustive"] = True
    cp = scratch.fresh("cases") + ".ndjson"
    common.write_ndjson(cp, cases)
    tp = scratch.fresh("trace") + ".ndjson"
    rc, out, dt = common.run([binary, "-cases", cp, "-trace", tp], timeout=3000)
    if rc != 0:
        raise Infra("httpparse failed rc=%d: %s" % (rc, out[-2000:]))
    summ = json.loads(out.strip().splitlines()[-1])
    res.coverage["evaluations"] += summ["cases"]
    res.coverage["distinct_nontrivial"] += summ["nontrivial"]
    if focus == "C06":
        res.coverage["segmentations"] = sum(len(c.get("cuts", [])) for c in cases)
    viol, stats = common.tlc_validate(scratch, "HttpMonTrace", tp, timeout=3000)
    res.coverage["traces_validated_against_impl"] += stats.get("scenarios", 0)
    res.coverage["trace_events_validated"] = stats.get("events", 0)
    byid = {c["id"]: c for c in cases}
    if viol:
        events = common.read_ndjson(tp)
        for v in viol:
            i = v["line"] - 1
            while i >= 0 and events[i].get("ev") != "reset":
                i -= 1
            cid = events[i].get("id")
            sc = byid.get(cid, {})
            ev = dict(v["ev"])
            import base64 as _b
            res.report({"property": focus, "case": cid, "why": v["why"], "event": ev, "side": sc.get("side"),
                        "mutation": cid.split("-", 2)[-1] if "reject" in cid or "bad" in cid else None,
                        "mclass": (cid.split("-", 2)[-1].split("@")[0].rsplit("-c", 1)[0] if ("reject" in cid or "bad" in cid)
                                   else cid.split("#")[0].split("-c")[0]),
                        "kind": cid.split("#")[0], "input": _b.b64decode(sc.get("data", "")).decode("latin-1")[:600],
                        "script": sc, "trace": events[i:v["line"]][-6:],
                        "replay_key": {"data": sc.get("data"), "why": v["why"]}})
    for c in cases[:2]:
        import base64 as _b
        res.sample({"case": c["id"], "bytes": _b.b64decode(c["data"]).decode("latin-1")[:300]})
