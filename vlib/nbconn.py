"""Shared machinery of C01 / C04 / C17: NbConn.tla state graphs -> replay scripts -> real nbio.Conn on
the model kernel (harness/cmd/nbconn) -> StreamMonTrace."""
import json
import random

from . import common, graph
from .common import Infra

CFG = """SPECIFICATION Spec
CONSTANTS
  Mode = "%(mode)s"
  Transport = "%(transport)s"
  SndCap = %(sndcap)d
  MaxWB = %(maxwb)d
  Writers <- %(writers)s
  Prog <- %(prog)s
  MaxIn = %(maxin)d
  RdBuf = %(rdbuf)d
  MaxRead = %(maxread)d
  Fix <- AllFix
INVARIANTS TypeOK Integrity LeftExact Bounded NoStall
CHECK_DEADLOCK FALSE
"""

WRITER_ACTIONS = ("WBegin", "WSys", "WSysFile", "WCtl", "WClose")
POLLER_ACTIONS = ("PWait", "PFLock", "PFSys", "PFCtl", "PRLock", "PRSys", "PRPost", "PRearmLock", "PRearm")


def mc_module(progs):
    """progs: name -> (oprog, wprog).  Returns the text of an MC module defining them."""
    lines = ["----------------------------- MODULE NbConnGen -----------------------------", "EXTENDS NbConn",
             'W1 == {"w1"}', 'W2 == {"w1", "w2"}', "NoFix == {}",
             'AllFix == {"unix_tail", "onopen_arm", "os_eagain_rearm", "os_peek_locked"}']
    for name, (o, w) in sorted(progs.items()):
        fo = "<<%s>>" % ", ".join(str(x) for x in o)
        if isinstance(w, dict):
            body = " ELSE ".join('IF t = "%s" THEN <<%s>>' % (k, ", ".join(str(x) for x in v)) for k, v in sorted(w.items()))
            body += " ELSE <<>>"
        else:
            body = "<<%s>>" % ", ".join(str(x) for x in w)
        lines.append('%s == [t \\in Writers \\cup {"o"} |-> IF t = "o" THEN %s ELSE %s]' % (name, fo, body))
    lines.append("=============================================================================")
    return "\n".join(lines) + "\n"


def write_gen_module(scratch, progs):
    d = common._spec_copy(scratch)
    with open(d + "/NbConnGen.tla", "w") as f:
        f.write(mc_module(progs))


def state_x(st):
    wl = st["wl"]
    x = {"queued": sum(e["len"] - e["off"] for e in wl), "qlen": len(wl), "left": st["left"],
         "wadded": int(st["wadded"]), "closed": int(st["closed"]), "kfill": st["kfill"],
         "nospace": int(st["nospace"]), "reg_on": int(st["reg"]["on"])}
    if st["reg"]["on"]:
        x["reg_out"] = int(st["reg"]["out"])
        x["dis"] = int(st["dis"])
    if st["closed"]:
        for k in ("queued", "qlen", "left", "wadded"):
            x.pop(k, None)
    return x


def scripts_for(g, c, progs, *, cap, seed, res, focus):
    npaths = g.count_paths(limit=10 ** 9)
    if npaths is not None and npaths <= cap:
        paths, _ = g.all_paths(cap=cap + 1, seed=seed)
        mode = "all %d maximal paths" % len(paths)
    else:
        paths = g.edge_tour(seed=seed)
        if len(paths) > cap:
            rnd0 = random.Random(seed)
            rnd0.shuffle(paths)
            paths = paths[:cap]
            mode = "%d of the edge-tour paths (%d edges, ~%s maximal paths)" % (cap, g.nedges, npaths)
        else:
            k = cap - len(paths)
            paths += g.random_walks(k, seed=seed)
            mode = "edge tour (%d edges) + %d random walks of ~%s maximal paths" % (g.nedges, k, npaths)
    res.notes.append("%s: %s" % (c["name"], mode))
    rnd = random.Random(seed * 104729 + 7)
    oprog, wprog = progs[c["prog"]]
    mkop = lambda n: {"op": "write", "n": n} if n >= 0 else {"op": "sendfile", "n": -n}
    threads = {"o": [mkop(n) for n in oprog]}
    wnames = ["w1"] if c["writers"] == "W1" else ["w1", "w2"]
    for w in wnames:
        wp = wprog[w] if isinstance(wprog, dict) else wprog
        threads[w] = [mkop(n) for n in wp]
    scripts = []
    seen = set()
    for (i0, path) in paths:
        steps = []
        for (lab, dst) in path:
            name, args = graph.label_name_args(lab)
            st = {"a": name}
            if name in WRITER_ACTIONS:
                st["t"] = args[0]
                st["e"] = c.get("eager", False) or rnd.random() < 0.5
            elif name in ("OpenAdd", "OpenAddLock"):
                st["t"] = "o"
            elif name in POLLER_ACTIONS:
                st["t"] = "p"
                if name == "PRPost":
                    st["pass"] = True
            elif name == "PeerRead":
                st["env"] = "peerread"
                st["m"] = args[0]
            elif name == "PeerSend":
                st["env"] = "peersend"
                st["m"] = 1
            else:
                raise Infra("unexpected action label %r" % lab)
            if name in ("WSys", "WSysFile", "WCtl", "PFSys", "PFCtl", "PRSys", "PRearm", "OpenAdd") and not c.get("eager", False) \
                    and rnd.random() < 0.3:
                st["l"] = True
            st["x"] = state_x(g.st(dst))
            steps.append(st)
        key = tuple((s.get("t"), s.get("env"), s.get("m"), s.get("pass", False)) for s in steps)
        if key in seen:
            continue
        seen.add(key)
        scripts.append({"id": "%s#%d" % (c["name"], len(scripts)), "focus": focus, "mode": c["mode"],
                        "transport": c["transport"], "sndcap": c["sndcap"], "maxwb": c["maxwb"], "rdbuf": c["rdbuf"],
                        "maxread": c["maxread"], "threads": threads, "order": ["o"] + wnames, "steps": steps,
                        "eager": c.get("eager", False), "origin": "onopen" if oprog else "goroutine",
                        "alloc": "std" if rnd.random() < 0.5 else "default",
                        "prog": c["prog"]})
    return scripts


def run_driver(res, scratch, scripts, binary):
    sp = scratch.fresh("scripts") + ".ndjson"
    common.write_ndjson(sp, scripts)
    tp = scratch.fresh("trace") + ".ndjson"
    total = {"scripts": 0, "steps": 0, "drift": 0, "drift_at": [], "stuck": 0, "nontrivial": 0, "partial_writes": 0}
    skip = 0
    parts = []
    for attempt in range(300):
        part = "%s.%d" % (tp, attempt)
        rc, out, dt = common.run([binary, "-scripts", sp, "-trace", part, "-skip", str(skip)], timeout=3600)
        if rc != 0:
            raise Infra("nbconn driver failed rc=%d: %s" % (rc, out[-3000:]))
        summ = json.loads(out.strip().splitlines()[-1])
        parts.append(part)
        for k in ("scripts", "steps", "drift", "stuck", "nontrivial", "partial_writes"):
            total[k] += summ.get(k, 0)
        total["drift_at"] += summ.get("drift_at") or []
        if summ["next"] < 0:
            break
        skip = summ["next"]
    else:
        res.notes.append("driver restarted 300 times (damaged scenarios); remaining scripts skipped")
    with open(tp, "w") as out_f:
        for p in parts:
            with open(p) as f:
                out_f.write(f.read())
    return tp, total


def validate(res, scratch, trace_path, scen_by_id, *, prop):
    viol, stats = common.tlc_validate(scratch, "StreamMonTrace", trace_path)
    res.coverage["traces_validated_against_impl"] += stats.get("scenarios", 0)
    res.coverage["trace_events_validated"] = res.coverage.get("trace_events_validated", 0) + stats.get("events", 0)
    if not viol:
        return 0
    events = common.read_ndjson(trace_path)
    n = 0
    for v in viol:
        line = v["line"]
        i = line - 1
        while i >= 0 and events[i].get("ev") != "reset":
            i -= 1
        sid = events[i].get("id") if i >= 0 else "?"
        j = i + 1
        while j < len(events) and events[j].get("ev") != "reset":
            j += 1
        sc = scen_by_id.get(sid, {})
        ev = v["ev"]
        call_op = None
        if "sid" in ev:
            for e in events[i:j]:
                if e.get("ev") == "call" and e.get("sid") == ev["sid"]:
                    call_op = e.get("op")
        rec = {"property": prop, "scenario": sid, "why": v["why"], "event": ev, "event_kind": ev.get("ev"),
               "mode": sc.get("mode"), "transport": sc.get("transport"), "origin": sc.get("origin"),
               "maxwb": sc.get("maxwb"), "op": call_op, "leg": sc.get("leg", "sim"),
               "script": sc, "trace": events[i:j][:300], "rejected_at": line - i - 1,
               "replay_key": {"steps": [(s.get("t"), s.get("env"), s.get("m")) for s in sc.get("steps", [])],
                              "id": sid if not sc.get("steps") else None, "why": v["why"],
                              "mode": sc.get("mode"), "transport": sc.get("transport")}}
        if res.report(rec):
            n += 1
    return n


def build(scratch):
    ov = common.make_overlay(scratch, shim=["sync@.", "syscall@.", "go@."])
    b = common.go_build(scratch, "./cmd/nbconn", overlay=ov, name="nbconn")
    return ov, b
