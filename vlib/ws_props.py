"""C12 / C13 / C15 (+ the WebSocket leg of C11): scenarios for harness/cmd/wscodec, validated by TLC
against WsMon.tla.  C13's frame sequences and their required outcome come from WsCodec.tla."""
import json
import random

from . import common, graph
from .common import Infra

WSCFG = """SPECIFICATION Spec
CONSTANTS
  MaxFrames = %(mf)d
  Ops = {%(ops)s}
  Rsvs = {%(rsvs)s}
  Lens = {%(lens)s}
  LegalCodes = {1000, 1001, 1002, 1003, 1007, 1008, 1009, 1010, 1011, 3000, 4999}
  IllegalCodes = {0, 999, 1004, 1005, 1006, 1016, 2999, 5000, 65535}
  Pls = {%(pls)s}
INVARIANT TypeOK
CHECK_DEADLOCK FALSE
"""


def expect_of(st):
    return {"delivered": [[d[0], d[1]] for d in st["delivered"]], "pongs": list(st["pongs"]), "closereply": st["closereply"],
            "failed": st["failed"], "closed": st["closed"], "mayfail": st["inmsg"] == 1 and st["utf"] == "bad"}


def frames_of(st):
    return [{"fin": f["fin"], "rsv": f["rsv"], "op": f["op"], "len": f["len"], "pl": f["pl"]} for f in st["frames"]]


def c13_cases(res, scratch, tier, seed, focus):
    rnd = random.Random(seed * 131 + 9)
    seqs = []
    allops = ", ".join(str(i) for i in range(16))
    g, r = graph.tlc_graph(scratch, "WsCodec", WSCFG % dict(mf=1, ops=allops, rsvs="0, 1, 2, 4", lens="0, 1, 2, 125, 126, 65536", pls=""),
                           timeout=900)
    res.add_model("wscodec-1frame-full-header-space", r)
    for n in g.state:
        st = g.st(n)
        if st["frames"]:
            seqs.append((frames_of(st), expect_of(st), "1f"))
    # every sequence of <= 3 frames over the well-formed-looking alphabet (data / continuation / ping / pong, FIN both
    # ways, valid text incl. a code point split across frames): interleavings of control frames with fragments
    g3, r3 = graph.tlc_graph(scratch, "WsCodec", WSCFG % dict(mf=3, ops="0, 1, 2, 9, 10", rsvs="0", lens="5",
                                                              pls='"ascii", "head", "tail"'), timeout=900)
    res.add_model("wscodec-3frames-wellformed-alphabet", r3)
    for n in g3.state:
        st = g3.st(n)
        if len(st["frames"]) >= 2:
            seqs.append((frames_of(st), expect_of(st), "3f"))
    # every sequence of <= 3 control frames with an empty or a 3-byte payload (a payload must never leak into the answer to
    # the next control frame), also with one data frame in front
    gc, rc3 = graph.tlc_graph(scratch, "WsCodec", WSCFG % dict(mf=3, ops="1, 9, 10", rsvs="0", lens="0, 3", pls='"ascii"'), timeout=900)
    res.add_model("wscodec-3frames-control-payloads", rc3)
    for n in gc.state:
        st = gc.st(n)
        if len(st["frames"]) >= 2:
            seqs.append((frames_of(st), expect_of(st), "3c"))
    num = 2500 if tier == "quick" else 30000
    behs, _ = common.tlc_simulate(scratch, "WsCodec", cfg_text=WSCFG % dict(mf=4, ops="0, 1, 2, 3, 8, 9, 10, 11", rsvs="0, 2",
                                                                           lens="0, 1, 2, 5, 125, 126", pls=""),
                                  num=num, depth=5, seed=seed)
    seen = set()
    for beh in behs:
        hdr, st = beh[-1]
        fr = frames_of(st)
        key = json.dumps(fr)
        if len(fr) < 2 or key in seen:
            continue
        seen.add(key)
        seqs.append((fr, expect_of(st), "sim"))
    res.notes.append("%d frame sequences (%d = every single frame of the header space)" % (len(seqs), sum(1 for s in seqs if s[2] == "1f")))
    # length encodings (not in the TLA+ alphabet: they only change the wire): control frames longer than 125 bytes in
    # the 64-bit form, and a 64-bit length with the top bit set -- both must fail the connection
    fail = {"delivered": [], "pongs": [], "closereply": False, "failed": True, "closed": False, "mayfail": False}
    for op in (8, 9, 10):
        for ln in (126, 200):
            seqs.append(([{"fin": True, "rsv": 0, "op": op, "len": ln, "pl": "c1000" if op == 8 else "ascii", "enc": "64"}], fail, "enc"))
    for op in (1, 2, 9):
        seqs.append(([{"fin": True, "rsv": 0, "op": op, "len": 0, "pl": "ascii", "enc": "64top"}], fail, "enc"))
    cases = []
    for si, (fr, exp, src) in enumerate(seqs):
        if any(f["pl"] == "cbad" and f["len"] <= 2 for f in fr):
            continue
        total = sum(f["len"] for f in fr)
        for client in (False, True):
            cuts = [0, -1] + ([1] if total <= 600 else [])
            for cut in cuts:
                cases.append({"id": "%s#%d-%s-cut%d" % (src, si, "client" if client else "server", cut), "mode": "C13", "focus": focus,
                              "client": client, "frames": fr, "expect": exp, "cut": cut, "seed": rnd.randrange(1 << 30),
                              "maxframe": 0, "nframes": len(fr), "opclass": "+".join(str(f["op"]) for f in fr)})
    return cases


def c12_cases(tier, seed, focus):
    rnd = random.Random(seed * 17 + 5)
    cases = []
    mfs = [16, 1024, 32768, 65536] if tier == "quick" else [16, 1000, 1024, 32768, 65536, 1 << 20]
    for mf in mfs:
        lens = sorted(set([0, 1, 125, 126, 127, 65535, 65536, 65537, mf - 1, mf, mf + 1, 2 * mf + 1] + ([1 << 20] if tier == "thorough" else [])))
        for ln in lens:
            if mf == 16 and ln > 70000:
                continue
            for client in (True, False):
                for (compress, level) in ((False, 0), (True, 1), (True, 6)) if tier == "quick" else \
                        ((False, 0), (True, -2), (True, 1), (True, 6), (True, 9)):
                    for content in ("rand", "comp"):
                        if content == "comp" and not compress and ln > 200:
                            continue
                        typ = 1 if (ln + mf) % 2 == 0 else 2
                        msgs = [{"typ": 1, "len": 5, "content": "rand"}, {"typ": 9, "len": 3, "content": "rand"},
                                {"typ": typ, "len": ln, "content": content}, {"typ": 10, "len": 0, "content": "rand"},
                                {"typ": 2, "len": 7, "content": "rand"}]
                        wire_est = ln + 40
                        for cut in ([0, -1, 4000] + ([1] if wire_est < 3000 else [])):
                            cases.append({"id": "mf%d-len%d-%s-%s%d-%s-cut%d" % (mf, ln, "client" if client else "server",
                                                                                 "z" if compress else "plain", level, content, cut),
                                          "mode": "C12", "focus": focus, "client": client, "compress": compress, "level": level,
                                          "maxframe": mf, "msgs": msgs, "cut": cut, "seed": rnd.randrange(1 << 30),
                                          "lenclass": "empty" if ln == 0 else "nonempty"})
                            if mf and ln > mf and cut in (0, -1):
                                # the same fragmented message with a ping travelling between its fragments (RFC 6455 5.4)
                                sp = dict(cases[-1], id=cases[-1]["id"] + "-splice", splice=True, seed=rnd.randrange(1 << 30))
                                cases.append(sp)
    return cases


def c15_cases(tier, seed, focus):
    rnd = random.Random(seed * 19 + 3)
    cases = []
    limits = [16, 1000] if tier == "quick" else [16, 1000, 65536]
    for L in limits:
        frags = [[L - 1], [L], [L + 1], [10 * L], [L // 2, L - L // 2], [L // 2, L - L // 2 + 1], [1, L], [L, 1],
                 [L // 3, L // 3, L - 2 * (L // 3) + 1], [L // 3, L // 3, L - 2 * (L // 3)]]
        for fr in frags:
            for cut in (0, 1, -1):
                cases.append({"id": "L%d-frag%s-cut%d" % (L, "_".join(map(str, fr)), cut), "mode": "C15", "focus": focus, "limit": L,
                              "kind": "frag", "frag": fr, "cut": cut, "seed": rnd.randrange(1 << 30), "maxframe": 0,
                              "shape": "frag"})
        for inf in (L - 1, L, L + 1, 2 * L, 100 * L):
            for cut in (0, 1):
                cases.append({"id": "L%d-inflate%d-cut%d" % (L, inf, cut), "mode": "C15", "focus": focus, "limit": L, "kind": "inflate",
                              "inflate": inf, "compress": True, "cut": cut, "seed": rnd.randrange(1 << 30), "maxframe": 0,
                              "shape": "inflate" + ("=L" if inf == L else "")})
        # the deflate stream ends with a BFINAL block instead of a sync flush
        for inf in (L, L + 1, L + 2):
            cases.append({"id": "L%d-inflatefinal%d" % (L, inf), "mode": "C15", "focus": focus, "limit": L, "kind": "inflate", "final": True,
                          "inflate": inf, "compress": True, "cut": 0, "seed": rnd.randrange(1 << 30), "maxframe": 0,
                          "shape": "inflatefinal" + ("=L" if inf == L else "")})
        # compressed data whose wire size alone exceeds the limit, in one frame and in three fragments
        for wire in (L + 1, 3 * L, 12 * L):
            for fr in ([1], [1, 1, 1]):
                cases.append({"id": "L%d-zwire%d-f%d" % (L, wire, len(fr)), "mode": "C15", "focus": focus, "limit": L, "kind": "zwire",
                              "inflate": wire, "frag": fr, "compress": True, "cut": 0, "seed": rnd.randrange(1 << 30), "maxframe": 0,
                              "shape": "zwire"})
        # a control frame between the fragments must not reset the accumulated size
        for fr in ([L // 2 + 100, L // 2 + 100], [L - 1, 2], [L // 2, L // 2]):
            for cut in (0, -1):
                cases.append({"id": "L%d-fragping%s-cut%d" % (L, "_".join(map(str, fr)), cut), "mode": "C15", "focus": focus, "limit": L,
                              "kind": "fragping", "frag": fr, "cut": cut, "seed": rnd.randrange(1 << 30), "maxframe": 0,
                              "shape": "fragping"})
    # control frames above 125 bytes on receive, in every length encoding that can carry them
    for op in (8, 9, 10):
        for ln in (126, 200):
            for enc in ("", "64"):
                cases.append({"id": "ctlrecv-op%d-len%d-enc%s" % (op, ln, enc or "16"), "mode": "C15", "focus": focus, "limit": 100000,
                              "kind": "ctlrecv", "frag": [ln], "frames": [{"fin": True, "rsv": 0, "op": op, "len": ln, "pl": "ascii", "enc": enc}],
                              "cut": 0, "seed": 1, "maxframe": 0, "shape": "ctlrecv"})
    cases.append({"id": "ctlsend", "mode": "C15", "focus": focus, "limit": 1000, "kind": "ctlsend", "maxframe": 0, "shape": "ctlsend"})
    for rl in (1024, 65536):
        # the header declares 32 MiB, the message limit is off / far above the read limit: the reservation stays small
        cases.append({"id": "readlimit%d-bigdecl" % rl, "mode": "C15", "focus": focus, "limit": 1 << 30, "kind": "readlimit", "inflate": 32 << 20,
                      "readlimit": rl, "cut": 14, "seed": 1, "maxframe": 0, "shape": "readlimit"})
    for rl in (64, 1024):
        for cut in (1, 7, 50):
            cases.append({"id": "readlimit%d-cut%d" % (rl, cut), "mode": "C15", "focus": focus, "limit": 1 << 20, "kind": "readlimit",
                          "readlimit": rl, "cut": cut, "seed": 1, "maxframe": 0, "shape": "readlimit"})
    return cases


def run_cases(res, scratch, binary, cases, focus):
    cp = scratch.fresh("wscases") + ".ndjson"
    common.write_ndjson(cp, cases)
    tp = scratch.fresh("wstrace") + ".ndjson"
    rc, out, dt = common.run([binary, "-cases", cp, "-trace", tp], timeout=3000)
    if rc != 0:
        raise Infra("wscodec failed rc=%d: %s" % (rc, out[-2000:]))
    res.coverage["evaluations"] += len(cases)
    viol, stats = common.tlc_validate(scratch, "WsMonTrace", tp, timeout=3000)
    res.coverage["traces_validated_against_impl"] += stats.get("scenarios", 0)
    res.coverage["trace_events_validated"] = res.coverage.get("trace_events_validated", 0) + stats.get("events", 0)
    byid = {c["id"]: c for c in cases}
    if viol:
        events = common.read_ndjson(tp)
        for v in viol:
            i = v["line"] - 1
            while i >= 0 and events[i].get("ev") != "reset":
                i -= 1
            cid = events[i].get("id")
            sc = byid.get(cid, {})
            res.report({"property": focus, "case": cid, "why": v["why"], "event": v["ev"], "wsmode": sc.get("mode"),
                        "role": "client" if sc.get("client") else "server", "compress": sc.get("compress"),
                        "lenclass": sc.get("lenclass"), "opclass": sc.get("opclass"), "shape": sc.get("shape"),
                        "script": sc, "trace": events[i:v["line"]][-8:],
                        "replay_key": {"id": cid, "why": v["why"]}})


def run_focus(res, scratch, focus, *, tier, seed, replay):
    res.coverage["rule"] = ("cases = codec scenarios: C12 message sequences (lengths at the length-encoding and frame-size "
                            "boundaries x roles x compression levels x frame-size limits x interleaved ping/pong x "
                            "segmentations); C13 frame sequences from WsCodec.tla (every single frame of the header space + "
                            "simulator-sampled sequences of 2-4 frames) x roles x segmentations; C15 sizes straddling the "
                            "limit; non-trivial = every case except zero-length ones (counted)")
    res.assumptions += ["endpoints are real websocket.Conn objects created with the exported constructors over in-memory "
                        "connections with the synchronous executor; upgrade paths and engines are covered by C14",
                        "RSV1 / RFC 7692 semantics with compression negotiated are not asserted in C13"]
    ov = common.make_overlay(scratch, shim=[])
    binary = common.go_build(scratch, "./cmd/wscodec", overlay=ov, name="wscodec")
    if replay:
        sc = json.load(open(replay))["script"]
        sc["focus"] = focus
        run_cases(res, scratch, binary, [sc], focus)
        return
    if focus == "C12":
        cases = c12_cases(tier, seed, focus)
    elif focus == "C13":
        cases = c13_cases(res, scratch, tier, seed, focus)
        res.coverage["exhaustive"] = True
    else:
        cases = c15_cases(tier, seed, focus)
    if focus != "C13":
        # the monitor is the TLA+ part for these; run a tiny TLC check of WsCodec so that the evidence has model numbers
        allops = ", ".join(str(i) for i in range(16))
        r = common.tlc_check(scratch, "WsCodec", cfg_text=WSCFG % dict(mf=1, ops=allops, rsvs="0, 1, 2, 4", lens="0, 1, 125, 126", pls=""))
        res.add_model("wscodec-1frame", r)
    run_cases(res, scratch, binary, cases, focus)
    res.coverage["distinct_nontrivial"] += sum(1 for c in cases if c.get("lenclass") != "empty")
    for c in cases[:2]:
        res.sample({k: c[k] for k in c if k not in ("expect",)})
