"""Configurations and orchestration for C01 / C04 / C17."""
import json

from . import common, graph, nbconn
from .common import Infra

PROGS = {
    # name: (calls inside the open callback, calls of each writer thread)
    "Pa": ((), (1, 3)),
    "Pb": ((3,), (1,)),
    "Pc": ((), (3, 2)),
    "Pd": ((), {"w1": (3,), "w2": (2,)}),
    "Pe": ((3,), {"w1": (1,), "w2": (2,)}),
    "Pf": ((), (2, 1, 2)),
    "Pg": ((), {"w1": (4,), "w2": (1,)}),      # partial flush of the head, then a coalescing write
    # Sendfile (negative = Sendfile of that many bytes): short sendfile + EAGAIN, a file queued behind a backlog, a write
    # behind a file entry (no coalescing), two files on one connection, a file sent from the open callback
    "Sa": ((), {"w1": (-3, -1), "w2": (1,)}),
    "Sb": ((), {"w1": (-3,), "w2": (-2, 1)}),
    "Sc": ((-3,), (1,)),
    "Sd": ((), (3, -2, 1)),
    # C17 (MaxWB = 3): fill, overflow attempts, drain, refill
    "Qa": ((), (2, 2, 1)),
    "Qb": ((), (3, 1, 3)),
    "Qc": ((), (4, 1)),
    "Qd": ((), {"w1": (2, 1), "w2": (2,)}),
    "Qe": ((), (2, -3, 2, 1)),
    "Qf": ((), (6, 1)),                         # one write whose unsent rest alone exceeds the bound                  # a queued file is not counted against the bound
}


def configs(focus, tier):
    out = []
    if focus in ("C01", "C04"):
        for mode in ("LT", "ET", "OS"):
            for transport in ("tcp", "unix"):
                progs = [("Pa", "W1"), ("Pb", "W1")]
                if tier == "thorough":
                    progs += [("Pc", "W1"), ("Pd", "W2"), ("Pe", "W2"), ("Pf", "W1"), ("Pg", "W2")]
                elif transport == "tcp":
                    progs += [("Pd", "W2"), ("Pg", "W2")]
                if transport == "tcp":
                    progs += [("Sa", "W2"), ("Sc", "W1")]
                    if tier == "thorough":
                        progs += [("Sb", "W2"), ("Sd", "W1")]
                for prog, writers in progs:
                    out.append(dict(mode=mode, transport=transport, sndcap=2, maxwb=0, writers=writers, prog=prog,
                                    maxin=1, rdbuf=2, maxread=2))
    else:
        for mode in ("LT", "ET", "OS"):
            progs = [("Qa", "W1"), ("Qb", "W1")]
            progs += [("Qe", "W1"), ("Qc", "W1"), ("Qf", "W1")]
            if tier == "thorough":
                progs += [("Qd", "W2")]
            for prog, writers in progs:
                out.append(dict(mode=mode, transport="tcp", sndcap=2, maxwb=3, writers=writers, prog=prog,
                                maxin=0, rdbuf=2, maxread=2, eager=True))
    for c in out:
        c["name"] = "%s-%s-%s-%s" % (c["mode"], c["transport"], c["prog"], c["writers"])
    return out


RULES = {
    "C01": "cases = replay scripts, one per distinct step sequence (thread steps, peer reads/sends) taken from the "
           "NbConn state graph; non-trivial = the real run contained at least one short write / EAGAIN AND steps of at "
           "least two library threads (counted by the driver)",
}


def run_focus(res, scratch, focus, *, tier, seed, replay):
    res.coverage["rule"] = RULES["C01"]
    res.assumptions += [
        "the model kernel (shims/vsys) is an abstraction of Linux sockets/epoll; its semantics are the ones written "
        "down in NbConn.tla; real-kernel behaviour is covered by the recorded real-socket leg only",
        "interleavings at the grain of lock acquisitions and syscalls; linux/epoll build only",
    ]
    ov, binary = nbconn.build(scratch)
    nbconn.write_gen_module(scratch, PROGS)
    if replay:
        rp = json.load(open(replay))
        sc = rp["script"]
        sc["focus"] = focus
        if sc.get("leg") == "real":
            return run_real(res, scratch, ov, focus, tier, seed, only=sc)
        tp, summ = nbconn.run_driver(res, scratch, [sc], binary)
        res.coverage["evaluations"] = 1
        nbconn.validate(res, scratch, tp, {sc["id"]: sc}, prop=focus)
        res.sample({"replayed": sc["id"]})
        return
    # the real-socket leg runs first, in a fresh process context (see DESIGN.md 8.6, open observation)
    run_real(res, scratch, ov, focus, tier, seed)
    cap = 250 if tier == "quick" else 3000
    all_scripts = []
    for c in configs(focus, tier):
        g, r = graph.tlc_graph(scratch, "NbConnGen", nbconn.CFG % c, timeout=1800)
        res.add_model(c["name"], r)
        all_scripts += nbconn.scripts_for(g, c, PROGS, cap=cap, seed=seed, res=res, focus=focus)
    res.coverage["exhaustive"] = True
    scen = {s["id"]: s for s in all_scripts}
    tp, summ = nbconn.run_driver(res, scratch, all_scripts, binary)
    res.coverage["evaluations"] += len(all_scripts)
    res.coverage["distinct_nontrivial"] += summ["nontrivial"]
    res.coverage["drift"] += summ["drift"]
    res.coverage["sim_steps"] = summ["steps"]
    res.coverage["sim_stuck"] = summ["stuck"]
    res.coverage["short_writes_or_eagain"] = summ["partial_writes"]
    if summ["drift"]:
        res.notes.append("drift (real code left the implementation-level model; not a verdict): %s" % summ["drift_at"][:8])
    nbconn.validate(res, scratch, tp, scen, prop=focus)
    run_variants(res, scratch, binary, all_scripts, focus, tier, seed)
    for s in all_scripts[:2]:
        res.sample({"script": s["id"], "threads": s["threads"],
                    "steps": [x.get("t") or "%s(%s)" % (x["env"], x.get("m")) for x in s["steps"]]})


def run_variants(res, scratch, binary, all_scripts, focus, tier, seed):
    """Operation variants: the same schedules of the NbConn state graph with the writers' calls replaced by Writev (the
    bytes split into 2-3 buffers) or Sendfile (the bytes in a file), or one writer using Sendfile next to a Write.  The
    step structure of those calls differs from Write's (several sendfile syscalls, dup of the descriptor), so the replay
    may leave the implementation-level model (counted as variant drift, never a verdict); StreamMon decides as always."""
    import random
    rnd = random.Random(seed * 2654435761 % (1 << 31) + 3)
    pool = [s for s in all_scripts if s.get("transport") == "tcp" and any(len(v) for k, v in s["threads"].items() if k != "o")]
    rnd.shuffle(pool)
    n = 240 if tier == "quick" else 3000
    out = []
    for i, s in enumerate(pool[:n]):
        kind = ("writev", "sendfile", "mixed")[i % 3]
        t = json.loads(json.dumps(s))
        for name, ops in t["threads"].items():
            if name == "o":
                continue
            for k, o in enumerate(ops):
                if kind == "mixed":
                    o["op"] = "sendfile" if (name == "w1") == (k % 2 == 0) else "write"
                else:
                    o["op"] = kind
                if o["op"] == "writev":
                    a = o["n"] // 3
                    o["ns"] = [x for x in (a, a, o["n"] - 2 * a) if x > 0] or [o["n"]]
        t["id"] = "%s~%s" % (s["id"], kind)
        t["variant"] = kind
        out.append(t)
    if not out:
        return
    tp, summ = nbconn.run_driver(res, scratch, out, binary)
    res.coverage["evaluations"] += len(out)
    res.coverage["distinct_nontrivial"] += summ["nontrivial"]
    res.coverage["variant_scripts"] = len(out)
    res.coverage["variant_drift"] = summ["drift"]
    res.coverage["sim_stuck"] = res.coverage.get("sim_stuck", 0) + summ["stuck"]
    nbconn.validate(res, scratch, tp, {s["id"]: s for s in out}, prop=focus)


def real_scenarios(focus, tier, seed):
    import random
    rnd = random.Random(seed * 31 + 5)
    out = []
    reps = 1 if tier == "quick" else 6
    if focus in ("C01", "C04"):
        for rep in range(reps):
            for mode in ("LT", "ET", "OS"):
                for transport in ("tcp", "unix"):
                    for origin in ("goroutine", "onopen", "ondata", "dial"):
                        out.append(dict(mode=mode, transport=transport, origin=origin,
                                        writers=2 if origin != "dial" else 1, calls=10 if tier == "quick" else 30,
                                        maxsize=150000, maxwb=0, ops="wvs"))
        # the only writer runs inside the DialAsync callback and leaves a backlog behind (nothing is written afterwards)
        for mode in ("LT", "ET", "OS"):
            out.append(dict(mode=mode, transport="tcp", origin="dialcb", writers=1, calls=10, maxsize=150000, maxwb=0, ops="wv"))
        # a long backlog of many queue entries: the peer reads nothing until every call was made, then everything
        for mode in ("LT", "ET", "OS"):
            out.append(dict(mode=mode, transport="tcp", origin="goroutine", writers=1, calls=400, maxsize=100000, maxwb=0, ops="wv",
                            paused=True))
    else:
        for rep in range(reps):
            for mode in ("LT", "ET", "OS"):
                for transport in ("tcp", "unix"):
                    for maxwb in (65536, 200000):
                        out.append(dict(mode=mode, transport=transport, origin="goroutine", writers=1,
                                        calls=40, maxsize=50000, maxwb=maxwb, ops="wvs" if transport == "tcp" else "wv"))
    for i, s in enumerate(out):
        s.update(id="real-%s-%s-%s#%d" % (s["mode"], s["transport"], s["origin"], i), focus=focus, leg="real",
                 seed=rnd.randrange(1 << 40))
    return out


def run_real(res, scratch, ov, focus, tier, seed, only=None):
    binary = common.go_build(scratch, "./cmd/streamreal", overlay=ov, name="streamreal")
    scens = [only] if only else real_scenarios(focus, tier, seed)
    sp = scratch.fresh("rscen") + ".json"
    with open(sp, "w") as f:
        json.dump(scens, f)
    tp = scratch.fresh("rtrace") + ".ndjson"
    rc, out, dt = common.run([binary, "-trace", tp, "-scenarios", sp], timeout=3000)
    if rc != 0:
        raise Infra("streamreal driver failed rc=%d: %s" % (rc, out[-3000:]))
    summ = json.loads(out.strip().splitlines()[-1])
    res.coverage["evaluations"] += len(scens)
    res.coverage["distinct_nontrivial"] += summ["nontrivial"]
    res.coverage["real_bytes"] = summ["bytes"]
    res.coverage["real_short_writes_or_eagain"] = summ["partial_or_eagain"]
    nbconn.validate(res, scratch, tp, {s["id"]: s for s in scens}, prop=focus)
    res.sample({"real_scenario": scens[0]})
