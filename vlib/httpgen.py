"""HTTP message generation from HttpMsg.tla (shared by C06 / C07 / C08)."""
import base64
import json
import random

from . import common, graph
from .common import Infra

CFG = """SPECIFICATION Spec
CONSTANTS
  Side = "%(side)s"
  Rich = %(rich)s
INVARIANT TypeOK
CHECK_DEADLOCK FALSE
"""
PAT = b"abcdefghijklmnopqrstuvwxyz0123456789"


def render(wire):
    out = bytearray()
    for t in wire:
        if t == "CRLF":
            out += b"\r\n"
        elif t.startswith("@") and t[1:].isdigit():
            n = int(t[1:])
            out += (PAT * (n // len(PAT) + 1))[:n]
        else:
            out += t.encode("latin-1")
    return bytes(out)


def canon(k):
    return "-".join(p[:1].upper() + p[1:].lower() for p in k.split("-"))


def norm_headers(pairs):
    idx = {}
    out = []
    for k, v in pairs:
        ck = canon(k)
        if ck in ("Host", "Transfer-Encoding", "Trailer", "Content-Length"):
            continue
        i = idx.get(ck, 0)
        idx[ck] = i + 1
        out.append("%s#%d=%s" % (ck, i, v.strip(" \t")))
    return sorted(out)


def meaning(side, msg, offset):
    """The spec's meaning of a message in the normalized form the driver uses for nbhttp and net/http."""
    hdrs = [(h[0], h[1]) for h in msg["headers"]]
    body = (PAT * (msg["body"] // len(PAT) + 1))[:msg["body"]].decode()
    conn = [v.strip().lower() for (k, v) in hdrs if canon(k) == "Connection"]
    if side == "server":
        host = ""
        for k, v in hdrs:
            if canon(k) == "Host":
                host = v.strip()
                break
        if msg["proto"] == "HTTP/1.0":
            close = ("close" in conn) or ("keep-alive" not in conn)
        else:
            close = "close" in conn
        return {"method": msg["method"], "target": msg["target"], "proto": msg["proto"], "host": host,
                "headers": norm_headers(hdrs), "body": body, "trailers": norm_headers([(t[0], t[1]) for t in msg["trailers"]]),
                "close": close, "offset": offset, "code": 0, "status": ""}
    return {"method": "", "target": "", "proto": msg["proto"], "host": "", "headers": norm_headers(hdrs), "body": body,
            "trailers": norm_headers([(t[0], t[1]) for t in msg["trailers"]]), "close": False, "offset": offset,
            "code": int(msg["code"]), "status": msg["reason"]}


def leaves_from_graph(g):
    out = []
    for n, raw in g.state.items():
        if 'stage = \\"done\\"' not in raw and 'stage = "done"' not in raw:
            continue
        st = g.st(n)
        out.append({"wire": st["wire"], "msg": st["msg"]})
    return out


def messages(res, scratch, side, *, rich_samples, seed, tier):
    """Every message of the small grammar (exhaustive) + sampled messages of the rich grammar."""
    g, r = graph.tlc_graph(scratch, "HttpMsg", CFG % dict(side=side, rich="FALSE"), timeout=900)
    res.add_model("httpmsg-%s-small" % side, r)
    msgs = leaves_from_graph(g)
    for m in msgs:
        m["src"] = "small"
    behs, _ = common.tlc_simulate(scratch, "HttpMsg", cfg_text=CFG % dict(side=side, rich="TRUE"), num=rich_samples, depth=12,
                                  seed=seed)
    seen = set()
    for beh in behs:
        hdr, st = beh[-1]
        if st.get("stage") != "done":
            continue
        key = json.dumps(st["wire"])
        if key in seen:
            continue
        seen.add(key)
        msgs.append({"wire": st["wire"], "msg": st["msg"], "src": "rich"})
    return msgs


def b64(b):
    return base64.b64encode(b).decode()


def cut_sets(n, rnd, *, singles, multi):
    cuts = []
    if singles:
        cuts += [[i] for i in range(1, n)]
    cuts.append(list(range(1, n)))           # byte at a time
    for _ in range(multi):
        k = rnd.randrange(2, 6)
        cuts.append(sorted(rnd.sample(range(1, max(2, n)), min(k, max(1, n - 1)))))
    return cuts


# ---- malformed neighbours / C08 mutations (token level) ----
def mutate_mustreject(wire):
    """Yield (name, new_wire) for the rejections the property statement names (DESIGN.md A.3)."""
    w = list(wire)
    crlf = [i for i, t in enumerate(w) if t == "CRLF"]
    # Content-Length values
    for i, t in enumerate(w):
        if t == "Content-Length" and i + 3 < len(w):
            for bad in ("abc", "12a", "1 2", "-1", "99999999999999999999"):
                x = list(w)
                x[i + 3] = bad
                yield ("cl=" + bad, x)
        if t == "Transfer-Encoding" and i + 3 < len(w):
            x = list(w)
            x[i + 3] = "gzip"
            yield ("te=gzip", x)
            x = list(w)
            x[i:i] = ["Transfer-Encoding", ":", " ", "chunked", "CRLF"]
            yield ("te-repeated", x)
    # chunk sizes: the token after the blank line that ends the header block, if chunked
    if "Transfer-Encoding" in w:
        for i in range(len(w) - 1):
            if w[i] == "CRLF" and w[i + 1] == "CRLF":
                j = i + 2
                if j < len(w) and not w[j].startswith("@"):
                    for bad in ("g", "-1", "0x10", "1" * 17):
                        x = list(w)
                        x[j] = bad
                        yield ("chunksize=" + bad, x)
                break
    # missing CR / missing LF at each line end
    for k, i in enumerate(crlf):
        for name, rep in (("cr-only", "\r"), ("lf-only", "\n")):
            x = list(w)
            x[i] = rep
            yield ("%s@%d" % (name, k), x)
