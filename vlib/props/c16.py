"""C16 - deadlines.  Deadline.tla (design model + history generator), harness/cmd/deadline (real time, one
tick = 40 ms, all histories in parallel), DeadlineMon.tla."""
import json
import random

from .. import common
from ..common import Infra

CFG = """SPECIFICATION Spec
CONSTANTS
  Horizon = %(h)d
  MaxOps = %(ops)d
  Durations = {%(durs)s}
INVARIANTS TypeOK NeverEarly NoStaleFire FiresBy
CHECK_DEADLOCK FALSE
"""


def run(res, scratch, *, tier, seed, replay):
    res.coverage["rule"] = ("cases = deadline histories sampled by TLC's simulator from Deadline.tla (set / renew / clear / mixed "
                            "read-write / draining write / close at integer ticks), replayed in real time on connections of "
                            "LT/ET/one-shot engines, plus HTTP and WebSocket keep-alive scenarios; non-trivial = history in "
                            "which a deadline is renewed, cleared or overridden before it would fire (counted)")
    res.assumptions += ["real timers: 'never early' and 'no stale fire' are exact (monotonic clock, deadline recorded before the "
                        "call); 'on time' is asserted with a slack of 500 ms",
                        "fire-versus-renew races at lock grain are covered by the design model only (time is not shimmed)"]
    r = common.tlc_check(scratch, "Deadline", cfg_text=CFG % dict(h=8, ops=3, durs="0, 2, 4"), timeout=900)
    res.add_model("deadline-H8-3ops", r)
    ov = common.make_overlay(scratch, shim=[])
    binary = common.go_build(scratch, "./cmd/deadline", overlay=ov, name="deadline")
    if replay:
        hs = [json.load(open(replay))["script"]]
    else:
        num = 240 if tier == "quick" else 1500
        behs, _ = common.tlc_simulate(scratch, "Deadline", cfg_text=CFG % dict(h=10, ops=5, durs="0, 2, 3, 5"), num=num * 2, depth=16, seed=seed)
        rnd = random.Random(seed)
        hs = []
        seen = set()
        for beh in behs:
            hdr, st = beh[-1]
            ops = [{"t": h[0], "op": h[1], "d": h[2]} for h in st["hist"]]
            key = json.dumps(ops)
            if not ops or key in seen:
                continue
            seen.add(key)
            hs.append({"id": "hist#%d" % len(hs), "leg": "core", "mode": ("LT", "ET", "OS")[len(hs) % 3], "ops": ops,
                       "end": max(o["t"] + o["d"] for o in ops) + 1})
            if len(hs) >= num:
                break
    hp = scratch.fresh("hist") + ".ndjson"
    common.write_ndjson(hp, hs)
    tp = scratch.fresh("dtrace") + ".ndjson"
    # on a busy machine the harness cannot keep a 60 ms tick (late histories are not judged): the run is repeated with a
    # coarser tick (150 ms, then 300 ms; allowances scale with it) until at least four fifths of the histories are judged
    for unit in (60, 150, 300):
        rc, out, dt = common.run([binary, "-histories", hp, "-trace", tp, "-unit", str(unit)] + (["-keepalive=false"] if replay else []),
                                 timeout=1800)
        if rc != 0:
            raise Infra("deadline driver failed rc=%d: %s" % (rc, out[-2000:]))
        summ = json.loads(out.strip().splitlines()[-1])
        n = summ["histories"]
        late = summ.get("late", 0)
        if late <= max(3, n // 5):
            break
        res.notes.append("tick %d ms: %d of %d histories late (machine busy), repeating with a coarser tick" % (unit, late, n))
    res.coverage["tick_ms"] = unit
    res.coverage["histories_skipped_harness_late"] = late
    if late:
        res.notes.append("%d of %d histories were not judged: the harness itself was late with one of their operations or the process "
                         "was not scheduled for more than a sixth of a tick during their life (busy machine)" % (late, n))
    if late >= n - 10:
        raise Infra("the deadline harness could not keep its schedule for %d of %d histories even with a 300 ms tick; not a verdict" % (late, n))
    res.coverage["evaluations"] += n
    res.coverage["distinct_nontrivial"] += sum(1 for h in hs if len(h["ops"]) >= 2) + (n - len(hs))
    viol, stats = common.tlc_validate(scratch, "DeadlineMonTrace", tp)
    res.coverage["traces_validated_against_impl"] += stats.get("scenarios", 0)
    res.coverage["trace_events_validated"] = stats.get("events", 0)
    byid = {h["id"]: h for h in hs}
    if viol:
        events = common.read_ndjson(tp)
        for v in viol:
            i = v["line"] - 1
            while i >= 0 and events[i].get("ev") != "reset":
                i -= 1
            hid = events[i].get("id")
            j = i + 1
            while j < len(events) and events[j].get("ev") != "reset":
                j += 1
            sc = byid.get(hid, {"id": hid})
            res.report({"property": "C16", "history": hid, "why": v["why"], "event": v["ev"], "mode": sc.get("mode"),
                        "leg": sc.get("leg", hid.split("-")[0]), "script": sc, "trace": events[i:j],
                        "replay_key": {"ops": sc.get("ops"), "id": hid, "why": v["why"]}})
    for h in hs[:2]:
        res.sample(h)
