"""C01 - outbound stream integrity (Write path on the model kernel; see vlib/nbconn.py)."""
from .. import nbconn_props


def run(res, scratch, *, tier, seed, replay):
    nbconn_props.run_focus(res, scratch, "C01", tier=tier, seed=seed, replay=replay)
