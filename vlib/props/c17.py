"""C17 - write-buffer bound (see vlib/nbconn.py)."""
from .. import nbconn_props


def run(res, scratch, *, tier, seed, replay):
    nbconn_props.run_focus(res, scratch, "C17", tier=tier, seed=seed, replay=replay)
