"""C20 - allocator contracts.  Alloc.tla generates programs (every operation from every abstract
state of its graph + seeded walks); harness/cmd/allocrun runs them on the three real allocators with a
shadow copy; TLC validates the call events against AllocMon.tla."""
import json
import random

from .. import common, graph
from ..common import Infra

CFG = """SPECIFICATION Spec
CONSTANTS
  K = %(k)d
  Sizes = {%(sizes)s}
  MaxLen = %(maxlen)d
  MaxGrow = %(maxgrow)d
INVARIANT TypeOK
CHECK_DEADLOCK FALSE
"""
KIND = {"Malloc": "malloc", "AppendB": "append", "AppendStr": "appendstr", "Realloc": "realloc", "Free": "free"}


def programs(g, *, seed, walks, max_len, allocs):
    paths = g.edge_tour(seed=seed, max_len=max_len) + g.random_walks(walks, seed=seed, max_len=max_len)
    progs = []
    for pi, (i0, path) in enumerate(paths):
        ops = []
        for (lab, dst) in path:
            name, args = graph.label_name_args(lab)
            if name == "Free":
                ops.append({"k": "free", "s": args[0], "n": 0})
            else:
                ops.append({"k": KIND[name], "s": args[0], "n": args[1]})
        if not ops:
            continue
        progs.append({"id": "prog#%d" % pi, "alloc": allocs[pi % len(allocs)], "ops": ops})
    return progs


def run(res, scratch, *, tier, seed, replay):
    res.coverage["rule"] = ("cases = allocator programs (paths of the Alloc.tla state graph: an edge tour covering every "
                            "operation from every abstract state, plus seeded walks), each run on one of the pooled / "
                            "aligned / standard / default allocators; non-trivial = a program in which at least one "
                            "Append/Realloc moved the buffer (counted by the driver)")
    res.assumptions += ["contents are compared against a shadow copy kept by the driver; reads of freed memory are not observable"]
    ov = common.make_overlay(scratch, shim=[])
    binary = common.go_build(scratch, "./cmd/allocrun", overlay=ov, name="allocrun")
    allocs = ["pool", "aligned", "std", "default"]
    if replay:
        rp = json.load(open(replay))
        progs = [rp["script"]]
        par = rp["script"].get("par", 1)
    else:
        progs = []
        # (a) small graphs, enumerated completely: every operation from every abstract state
        for (k, sz, maxlen, mg) in ((2, [0, 33, 1025], 2100, 1), (2, [1, 32768, 32769], 70000, 1), (3, [0, 65], 200, 1)):
            g, r = graph.tlc_graph(scratch, "Alloc", CFG % dict(k=k, sizes=", ".join(map(str, sz)), maxlen=maxlen, maxgrow=mg),
                                   timeout=1800)
            res.add_model("alloc-K%d-%s-grow%d" % (k, "/".join(map(str, sz)), mg), r)
            ps = programs(g, seed=seed + len(progs), walks=100, max_len=60, allocs=allocs)
            for p in ps:
                p["id"] = "K%d-%s-%s" % (k, maxlen, p["id"])
            progs += ps
        # (b) wide size sets: behaviours sampled by TLC's simulator
        wide = [0, 1, 31, 32, 33, 63, 64, 65, 1023, 1024, 1025, 4097, 32767, 32768, 32769, 65536, 65537]
        num = 600 if tier == "quick" else 6000
        behs, _ = common.tlc_simulate(scratch, "Alloc", cfg_text=CFG % dict(k=3, sizes=", ".join(map(str, wide)), maxlen=200000, maxgrow=4),
                                      num=num, depth=40, seed=seed)
        for bi, beh in enumerate(behs):
            ops = []
            for (hdr, st) in beh[1:]:
                name, args = common.action_name_args(hdr)
                if name == "Free":
                    ops.append({"k": "free", "s": args[0], "n": 0})
                elif name in KIND:
                    ops.append({"k": KIND[name], "s": args[0], "n": args[1]})
            if ops:
                progs.append({"id": "sim#%d" % bi, "alloc": allocs[bi % len(allocs)], "ops": ops})
        res.coverage["exhaustive"] = True
        par = 1
    scen = {p["id"]: p for p in progs}
    legs = [("seq", 1, "", progs), ("par8", 8, "", progs)]
    if not replay:
        grow = [p for p in progs if sum(1 for o in p["ops"] if o["k"] in ("realloc", "append", "appendstr")) >= 3][:300]
        for kind in ("aligned", "pool", "default"):
            legs.append(("par16-" + kind, 16, kind, grow))
    for (label, par_n, force, progs_l) in legs:
        if replay and (par_n != par or force != rp["script"].get("force", "")):
            continue
        pp = scratch.fresh("progs") + ".ndjson"
        common.write_ndjson(pp, progs_l)
        tp = scratch.fresh("trace") + ".ndjson"
        cmd = [binary, "-programs", pp, "-trace", tp, "-par", str(par_n)]
        if force:
            cmd += ["-force", force, "-reps", "3" if tier == "quick" else "10"]
        rc, out, dt = common.run(cmd, timeout=3000)
        if rc != 0:
            raise Infra("allocrun failed rc=%d: %s" % (rc, out[-2000:]))
        summ = json.loads(out.strip().splitlines()[-1])
        res.coverage["evaluations"] += summ["programs"]
        if par_n == 1:
            res.coverage["distinct_nontrivial"] += summ["nontrivial"]
        viol, stats = common.tlc_validate(scratch, "AllocMonTrace", tp, timeout=3000)
        res.coverage["traces_validated_against_impl"] += stats.get("scenarios", 0)
        res.coverage["trace_events_validated"] = res.coverage.get("trace_events_validated", 0) + stats.get("events", 0)
        if viol:
            events = common.read_ndjson(tp)
            for v in viol:
                i = v["line"] - 1
                while i >= 0 and events[i].get("ev") != "reset":
                    i -= 1
                pid = events[i].get("id")
                sc = dict(scen.get(pid.split("@")[0], {}))
                sc["par"] = par_n
                sc["force"] = force
                res.report({"property": "C20", "leg": label, "why": v["why"], "event": v["ev"], "alloc": events[i].get("alloc"),
                            "op": v["ev"].get("kind"), "script": sc, "trace": events[i:v["line"]][-40:],
                            "replay_key": {"ops": sc.get("ops"), "alloc": sc.get("alloc"), "why": v["why"], "par": par_n}})
    for p in progs[:2]:
        res.sample({"program": p["id"], "alloc": p["alloc"], "ops": p["ops"][:12]})
