"""C12 - WebSocket codec (see vlib/ws_props.py) plus the end-to-end leg (vlib/ws_e2e.py)."""
import json

from .. import ws_props, ws_e2e


def run(res, scratch, *, tier, seed, replay):
    if replay:
        rp = json.load(open(replay))
        if rp.get("leg") == "e2e":
            return ws_e2e.run(res, scratch, "C12", tier, seed, only=rp["script"])
    ws_props.run_focus(res, scratch, "C12", tier=tier, seed=seed, replay=replay)
    if not replay:
        ws_e2e.run(res, scratch, "C12", tier, seed)
