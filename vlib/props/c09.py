"""C09 - response framing."""
from .. import resp_props


def run(res, scratch, *, tier, seed, replay):
    resp_props.run_focus(res, scratch, "C09", tier=tier, seed=seed, replay=replay)
