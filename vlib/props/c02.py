"""C02 - inbound delivery integrity in every poller configuration and transport (real-kernel matrix leg;
the async-gate model NbRead.tla is checked by TLC)."""
import json
import random

from .. import common, graph, nbconn
from ..common import Infra

GATE_CFG = """SPECIFICATION Spec
CONSTANTS
  Buf = 2
  Sends <- %(sends)s
  Fix <- %(fix)s
INVARIANTS TypeOK DeliveredIsPrefix %(extra)s
CONSTRAINT Bounded
CHECK_DEADLOCK FALSE
"""
# which repairs the tree contains (the spec models the code as it is)
GATE_FIX = "AllFix"


def gate_scripts(g, name, *, cap, seed, res):
    """Replay scripts for the asynchronous read gate from the NbRead state graph."""
    npaths = g.count_paths(limit=10 ** 9)
    if npaths is not None and npaths <= cap:
        paths, _ = g.all_paths(cap=cap + 1, seed=seed)
        mode = "all %d maximal paths" % len(paths)
    else:
        paths = g.edge_tour(seed=seed)
        k = max(0, cap - len(paths))
        paths += g.random_walks(k, seed=seed)
        mode = "edge tour (%d edges) + %d random walks of ~%s maximal paths" % (g.nedges, k, npaths)
    res.notes.append("%s: %s" % (name, mode))
    scripts = []
    seen = set()
    for (i0, path) in paths:
        steps = [{"t": "o", "a": "OpenAddLock"}, {"t": "o", "a": "OpenAdd"}]
        # the first epoll_wait of an edge-triggered registration reports EPOLLOUT: the poller flushes (nothing) first
        steps += [{"t": "p", "a": "PWait0"}, {"t": "p", "a": "PFLock0"}]
        cur = i0
        sends = g.st(i0)  # noqa
        for (lab, dst) in path:
            name_, args = graph.label_name_args(lab)
            src = g.st(cur)
            if name_ == "Send":
                n = g.st(dst)["krcv"] - src["krcv"]
                steps.append({"env": "peersend", "m": n, "a": "Send"})
            elif name_ in ("PWait", "PFLock", "PInc", "PUndo", "PLoad", "PCas", "PSpawn"):
                steps.append({"t": "p", "a": name_})
            elif name_ in ("TRLock", "TRSys", "TDec"):
                steps.append({"t": "t%d" % src["spawned"], "a": name_})
            else:
                raise Infra("unexpected action label %r" % lab)
            cur = dst
        key = tuple((x.get("t"), x.get("env"), x.get("m")) for x in steps)
        if key in seen:
            continue
        seen.add(key)
        scripts.append({"id": "%s#%d" % (name, len(scripts)), "focus": "C02", "mode": "ET", "transport": "tcp", "sndcap": 100,
                        "maxwb": 0, "rdbuf": 2, "maxread": 3, "threads": {"o": []}, "order": ["o"], "steps": steps, "eager": False,
                        "origin": "goroutine", "alloc": "default", "async": True, "leg": "sim"})
    return scripts


def run_gate(res, scratch, tier, seed, only=None):
    ov = common.make_overlay(scratch, shim=["sync@.", "syscall@.", "go@.", "atomic@."])
    binary = common.go_build(scratch, "./cmd/nbconn", overlay=ov, name="nbconn_async")
    if only:
        scripts = [only]
    else:
        scripts = []
        for sends in ("S1", "S2"):
            cfg = GATE_CFG % dict(sends=sends, fix=GATE_FIX, extra="CounterSane AtMostOneReadTask NoStrandedInput" if GATE_FIX == "AllFix" else "")
            g, r = graph.tlc_graph(scratch, "NbReadMC", cfg, timeout=900)
            res.add_model("nbread-gate-%s-%s" % (sends, GATE_FIX), r)
            scripts += gate_scripts(g, "gate-%s" % sends, cap=600 if tier == "quick" else 10000, seed=seed, res=res)
        res.coverage["exhaustive"] = True
    tp, summ = nbconn.run_driver(res, scratch, scripts, binary)
    res.coverage["evaluations"] += len(scripts)
    res.coverage["distinct_nontrivial"] += len(scripts)
    res.coverage["drift"] += summ["drift"]
    res.coverage["sim_steps"] = summ["steps"]
    if summ["drift"]:
        res.notes.append("drift (real code left the implementation-level model; not a verdict): %s" % summ["drift_at"][:6])
    validate(res, scratch, tp, {s["id"]: s for s in scripts})


def validate(res, scratch, tp, byid):
    viol, stats = common.tlc_validate(scratch, "InboundMonTrace", tp, timeout=3000)
    res.coverage["traces_validated_against_impl"] += stats.get("scenarios", 0)
    res.coverage["trace_events_validated"] = res.coverage.get("trace_events_validated", 0) + stats.get("events", 0)
    if viol:
        events = common.read_ndjson(tp)
        for v in viol:
            i = v["line"] - 1
            while i >= 0 and events[i].get("ev") != "reset":
                i -= 1
            sid = events[i].get("id")
            sc = byid.get(sid, {})
            res.report({"property": "C02", "engine": sid, "why": v["why"], "event": v["ev"], "mode": sc.get("mode"),
                        "transport": sc.get("transport"), "async": sc.get("async"), "exec": sc.get("exec"), "leg": sc.get("leg", "real"),
                        "pending": bool(sc.get("pending")), "backlog": bool(sc.get("backlog")), "writeduring": bool(sc.get("writeduring")),
                        "script": sc, "trace": events[max(i, v["line"] - 12):v["line"]],
                        "replay_key": {"id": sid if not sc.get("steps") else None, "why": v["why"],
                                       "steps": [(x.get("t"), x.get("env"), x.get("m")) for x in sc.get("steps", [])]}})


def matrix(tier, seed):
    rnd = random.Random(seed * 11 + 2)
    out = []
    i = 0
    for mode in ("LT", "ET", "OS"):
        for asyncr in (False, True):
            for ex in ("default", "custom"):
                for transport in ("tcp", "unix", "udp"):
                    combos = [(np, rb, mr) for np in (1, 2, 4) for rb in (1024, 65536) for mr in (1, 3)]
                    if tier == "quick":
                        # every (mode, async, executor, transport) cell with two rotating settings of the other three
                        combos = [combos[(i * 5) % 12], combos[(i * 5 + 7) % 12]]
                    for (np, rb, mr) in combos:
                        out.append({"id": "%s-%s-%s-%s-np%d-rb%d-mr%d" % (mode, "async" if asyncr else "sync", ex, transport, np, rb, mr),
                                    "mode": mode, "async": asyncr, "exec": ex, "npoller": np, "rbuf": rb, "maxread": mr,
                                    "transport": transport, "seed": rnd.randrange(1 << 40), "conns": 2,
                                    "idle_ms": 150 if tier == "quick" else 300, "slow": i % 2 == 0})
                    i += 1
    # the peer (half-)closes while the engine still has input of it unread (slow data callback)
    for mode in ("LT", "ET", "OS"):
        out.append({"id": "%s-sync-default-tcp-pending-close" % mode, "mode": mode, "async": False, "exec": "default", "npoller": 1,
                    "rbuf": 1024, "maxread": 1, "transport": "tcp", "seed": rnd.randrange(1 << 40), "conns": 2, "idle_ms": 100,
                    "slow": True, "pending": True})
    # the server first writes a block the socket does not take at once: the poller handles pure writing events (flushes ending
    # on EAGAIN, one-shot re-arms) while the peer is silent; what the peer sends afterwards must still be delivered
    for mode in ("LT", "ET", "OS"):
        for asyncr in (False, True):
            for transport in ("tcp", "unix"):
                out.append({"id": "%s-%s-default-%s-backlog" % (mode, "async" if asyncr else "sync", transport), "mode": mode, "async": asyncr,
                            "exec": "default", "npoller": 1, "rbuf": 4096, "maxread": 3, "transport": transport,
                            "seed": rnd.randrange(1 << 40), "conns": 2, "idle_ms": 100, "slow": False, "backlog": True})
    # while a slow data callback runs with more input pending, another goroutine writes a block that leaves a backlog (the
    # writing side re-arms the descriptor): the rest of the input must still be delivered in order by ONE reader
    for mode in ("LT", "ET", "OS"):
        for asyncr in (False, True):
            out.append({"id": "%s-%s-default-tcp-writeduring" % (mode, "async" if asyncr else "sync"), "mode": mode, "async": asyncr,
                        "exec": "default", "npoller": 1, "rbuf": 1024, "maxread": 3, "transport": "tcp",
                        "seed": rnd.randrange(1 << 40), "conns": 2, "idle_ms": 100, "slow": False, "writeduring": True})
    return out


def run(res, scratch, *, tier, seed, replay):
    res.coverage["rule"] = ("cases = engine configurations of the matrix {LT, ET, ET+ONESHOT} x {sync, async} x {default, custom "
                            "IOExecute} x {tcp, unix, udp} with NPoller / ReadBufferSize / MaxConnReadTimesPerEventLoop rotated "
                            "(quick: 72 engines, every cell of the first four factors; thorough: all 432); every engine gets "
                            "bursts around its read-buffer size with pauses and half-close (UDP: echo-paced datagrams from 3 "
                            "remotes); non-trivial = all (each engine delivers >= 400 KB or 36 datagrams)")
    res.assumptions += ["idle is measured as process CPU over a 150/300 ms window after the traffic (threshold 30% of one core; a "
                        "spinning reader is 100%); engines run one at a time",
                        "UDP datagrams are echo-paced and never exceed the read buffer, so kernel drops / truncation cannot be "
                        "mistaken for loss"]
    if replay:
        sc = json.load(open(replay))["script"]
        if sc.get("leg") == "sim":
            return run_gate(res, scratch, tier, seed, only=sc)
    else:
        run_gate(res, scratch, tier, seed)
    ov = common.make_overlay(scratch, shim=[])
    binary = common.go_build(scratch, "./cmd/inbound", overlay=ov, name="inbound")
    scens = [json.load(open(replay))["script"]] if replay else matrix(tier, seed)
    sp = scratch.fresh("iscen") + ".json"
    with open(sp, "w") as f:
        json.dump(scens, f)
    tp = scratch.fresh("itrace") + ".ndjson"
    rc, out, dt = common.run([binary, "-trace", tp, "-scenarios", sp], timeout=3000)
    if rc != 0:
        raise Infra("inbound driver failed rc=%d: %s" % (rc, out[-2000:]))
    summ = json.loads(out.strip().splitlines()[-1])
    res.coverage["evaluations"] += summ["engines"]
    res.coverage["distinct_nontrivial"] += summ["engines"]
    res.coverage["bytes_delivered"] = summ["bytes"]
    validate(res, scratch, tp, {s["id"]: s for s in scens})
    res.sample(scens[0])
