"""C05 - per-connection job serialization (Conn.Execute / MustExecute).

impl-level spec : specs/HeadDrain.tla (Variant = "conn")   -- TLC exhaustive, invariants + liveness
deciding monitor: specs/FifoMon.tla via FifoMonTrace       -- TLC validates real-code traces
binding G       : every path / edge tour / random walks of the TLC state graph replayed on the real
                  nbio.Conn under the cooperative scheduler (harness/cmd/sched)
binding V       : free-running stress on real goroutines with three executors (harness/cmd/fiforeal)
"""
import json
import os
import random

from .. import common, graph, ws_e2e
from ..common import Infra, log

CFG = """SPECIFICATION Spec
CONSTANTS
  Subs <- %(subs)s
  Prog <- %(prog)s
  Executor = "%(executor)s"
  WithClose = %(close)s
  Variant = "%(variant)s"
  MaxSpawn = %(maxspawn)d
  Mutant = ""
INVARIANTS TypeOK OneAtATime OneDrainer Fifo NoLostJob RefusedNeverRun RefusedOnlyClosed ListTracksBacklog
%(props)s
CHECK_DEADLOCK FALSE
"""

PROGS = {
    "P_e": ["exec"], "P_ee": ["exec", "exec"], "P_em": ["exec", "must"], "P_eee": ["exec", "exec", "exec"],
}
SUBS = {"S1": ["s1"], "S2": ["s1", "s2"], "S3": ["s1", "s2", "s3"]}


def prog_of(cfg):
    subs = SUBS[cfg["subs"]]
    if cfg["prog"] == "P_mix":
        return {s: (["exec", "must"] if s == "s1" else ["exec", "exec"]) for s in subs}
    return {s: list(PROGS[cfg["prog"]]) for s in subs}


def configs(tier, variant):
    out = []
    if variant == "conn":
        for ex in ("go", "inline"):
            out.append(dict(subs="S2", prog="P_ee", executor=ex, close=True))
            out.append(dict(subs="S2", prog="P_mix", executor=ex, close=True))
            if tier == "thorough":
                out.append(dict(subs="S3", prog="P_ee", executor=ex, close=True))
                out.append(dict(subs="S2", prog="P_eee", executor=ex, close=True))
                out.append(dict(subs="S3", prog="P_e", executor=ex, close=False))
    else:
        out.append(dict(subs="S2", prog="P_ee", executor="go", close=False))
        out.append(dict(subs="S3", prog="P_e", executor="go", close=False))
        if tier == "thorough":
            out.append(dict(subs="S3", prog="P_ee", executor="go", close=False))
            out.append(dict(subs="S2", prog="P_eee", executor="go", close=False))
    for c in out:
        c["variant"] = variant
        njobs = len(SUBS[c["subs"]]) * (2 if c["prog"] in ("P_ee", "P_em", "P_mix") else 3 if c["prog"] == "P_eee" else 1)
        c["maxspawn"] = njobs
        c["name"] = "%s-%s-%s-%s%s" % (variant, c["subs"], c["prog"], c["executor"], "-close" if c["close"] else "")
    return out


def cfg_text(c, liveness=True):
    d = dict(c)
    d["close"] = "TRUE" if c["close"] else "FALSE"
    d["props"] = "PROPERTY AllRun" if liveness else ""
    return CFG % d


def scripts_from_graph(g, c, *, cap, seed, res):
    """Turn paths of the state graph into replay scripts."""
    npaths = g.count_paths(limit=10 ** 9)
    if npaths is not None and npaths <= cap:
        paths, complete = g.all_paths(cap=cap + 1, seed=seed)
        mode = "all %d maximal paths" % len(paths)
    else:
        paths = g.edge_tour(seed=seed)
        k = max(0, cap - len(paths))
        paths += g.random_walks(k, seed=seed)
        mode = "edge tour (%d edges) + %d random walks of ~%s maximal paths" % (g.nedges, k, npaths)
    res.notes.append("%s: %s" % (c["name"], mode))
    rnd = random.Random(seed * 7919 + 13)
    prog = prog_of(c)
    scripts = []
    seen = set()
    for (i0, path) in paths:
        steps = []
        for (lab, dst) in path:
            name, args = graph.label_name_args(lab)
            if name in ("Step", "SubmitCS", "Spawn", "Peek", "RunStart", "RunEnd", "NextCS", "FetchCS") and args:
                t = args[0]
                if c["variant"] == "async" and t.startswith("g"):
                    t = "lib" + t[1:]
            elif name == "CloseCS":
                t = "closer"
            else:
                raise Infra("unexpected action label %r" % lab)
            st = g.st(dst)
            steps.append({"t": t, "a": name, "x": {"len": len(st["list"])}, "e": rnd.random() < 0.5})
        key = tuple(s["t"] for s in steps)
        if key in seen:
            continue
        seen.add(key)
        panic = {}
        if rnd.random() < 0.3:
            s = rnd.choice(sorted(prog))
            panic["%s.%d" % (s, rnd.randrange(len(prog[s])) + 1)] = True
        scripts.append({"id": "%s#%d" % (c["name"], len(scripts)), "variant": c["variant"], "executor": c["executor"],
                        "subs": prog, "order": sorted(prog), "close": c["close"], "panic": panic, "steps": steps})
    # arrive variants: before some steps of a submitter (or the closer) the thread is first moved up to the lock of its
    # critical section without being granted it, at a random earlier point of the schedule: code that the library executes
    # before it takes the lock (an unlocked look at shared state) then runs early
    extra = []
    for sc in scripts[:max(1, len(scripts) // 2)]:
        steps = [dict(x) for x in sc["steps"]]
        out, done = [], False
        for i, st in enumerate(steps):
            if (st["t"] in prog or st["t"] == "closer") and rnd.random() < 0.4:
                # position of the arrive step: somewhere after the previous step of the same thread
                prev = max([k for k in range(len(out)) if out[k]["t"] == st["t"]] or [-1])
                pos = rnd.randint(prev + 1, len(out))
                out.insert(pos, {"t": st["t"], "a": "Arrive", "x": {}, "e": False, "arr": True})
                done = True
            out.append(st)
        if done:
            for st in out:
                st["x"] = {}          # the list length of the model is compared only in the linearized scripts
            extra.append(dict(sc, id=sc["id"] + "~arr", steps=out, arrive=True))
    return scripts + extra


def run_sched(res, scratch, scripts, binary):
    sp = scratch.fresh("scripts") + ".ndjson"
    common.write_ndjson(sp, scripts)
    tp = scratch.fresh("trace") + ".ndjson"
    rc, out, dt = common.run([binary, "-scripts", sp, "-trace", tp], timeout=3600)
    if rc != 0:
        raise Infra("sched driver failed rc=%d: %s" % (rc, out[-3000:]))
    summ = json.loads(out.strip().splitlines()[-1])
    return tp, summ


def validate(res, scratch, trace_path, scen_by_id, *, prop, leg):
    """TLC trace validation against FifoMon; returns number of rejected scenarios."""
    viol, stats = common.tlc_validate(scratch, "FifoMonTrace", trace_path)
    res.coverage["traces_validated_against_impl"] += stats.get("scenarios", 0)
    res.coverage.setdefault("trace_events_validated", 0)
    res.coverage["trace_events_validated"] += stats.get("events", 0)
    if not viol:
        return 0
    # map line -> scenario id
    events = common.read_ndjson(trace_path)
    n = 0
    for v in viol:
        line = v["line"]
        i = line - 1
        while i >= 0 and events[i].get("ev") != "reset":
            i -= 1
        sid = events[i].get("id") if i >= 0 else "?"
        j = i + 1
        while j < len(events) and events[j].get("ev") != "reset":
            j += 1
        sc = scen_by_id.get(sid, {})
        rec = {"property": prop, "leg": leg, "scenario": sid, "why": v["why"], "event": v["ev"],
               "event_kind": v["ev"].get("ev"), "executor": sc.get("executor"), "variant": sc.get("variant"),
               "script": sc, "trace": events[i:j][:400], "rejected_at": line - i - 1,
               "replay_key": {"scenario": sc.get("steps", sid), "why": v["why"]}}
        if res.report(rec):
            n += 1
    return n


def build(scratch):
    ov = common.make_overlay(scratch, shim=["sync@.+timer", "go@timer"])
    b1 = common.go_build(scratch, "./cmd/sched", overlay=ov, name="sched")
    return ov, b1


def run(res, scratch, *, tier, seed, replay):
    res.coverage["rule"] = ("cases = replay scripts (one per distinct thread-step sequence of the HeadDrain state graph) "
                            "plus free-running stress connections; non-trivial = the script switches between threads at "
                            "least twice inside the hand-over protocol (counted by the driver), or, in the stress leg, a "
                            "connection on which jobs of >= 2 submitters were queued behind a running drainer")
    res.assumptions += [
        "cooperative replay covers interleavings at the grain of critical sections / go statements / job boundaries; "
        "finer-grained races inside a critical section are covered only by the free-running leg",
        "linux/epoll build only",
    ]
    ov, sched_bin = build(scratch)
    scen = {}
    if replay:
        rp = json.load(open(replay))
        sc = rp["script"]
        if rp.get("leg") == "e2e":
            return ws_e2e.run(res, scratch, "C05", tier, seed, only=sc)
        if rp.get("leg") == "real":
            return run_real(res, scratch, ov, tier, seed, only=sc)
        scripts = [sc]
        tp, summ = run_sched(res, scratch, scripts, sched_bin)
        scen[sc["id"]] = sc
        res.coverage["evaluations"] = 1
        validate(res, scratch, tp, scen, prop="C05", leg="sim")
        res.sample({"replayed": sc["id"]})
        return
    cap = 1500 if tier == "quick" else 20000
    all_scripts = []
    for c in configs(tier, "conn"):
        g, r = graph.tlc_graph(scratch, "HeadDrainMC", cfg_text(c, liveness=True), timeout=1800)
        res.add_model(c["name"], r)
        scripts = scripts_from_graph(g, c, cap=cap, seed=seed, res=res)
        all_scripts += scripts
    res.coverage["exhaustive"] = True
    for s in all_scripts:
        scen[s["id"]] = s
    tp, summ = run_sched(res, scratch, all_scripts, sched_bin)
    res.coverage["evaluations"] += len(all_scripts)
    res.coverage["distinct_nontrivial"] += summ["interleaved"]
    res.coverage["drift"] += summ["drift"]
    if summ["drift"]:
        res.notes.append("drift (real code left the implementation-level model; not a verdict): %s" % summ["drift_at"])
    res.coverage["sim_steps"] = summ["steps"]
    res.coverage["sim_stuck"] = summ["stuck"]
    validate(res, scratch, tp, scen, prop="C05", leg="sim")
    for s in all_scripts[:2]:
        res.sample({"script": s["id"], "steps": [x["t"] for x in s["steps"]], "panic": s["panic"]})
    run_real(res, scratch, ov, tier, seed)
    # WebSocket callbacks of real servers: open / message / ping / close callbacks of one connection never overlap
    ws_e2e.run(res, scratch, "C05", tier, seed)


def run_real(res, scratch, ov, tier, seed, only=None):
    binary = common.go_build(scratch, "./cmd/fiforeal", overlay=ov, name="fiforeal")
    tp = scratch.fresh("rtrace") + ".ndjson"
    conns = 12 if tier == "quick" else 60
    args = [binary, "-trace", tp, "-seed", str(seed), "-conns", str(conns), "-subs", "8", "-jobs", "20"]
    if only:
        args += ["-only", json.dumps(only)]
    rc, out, dt = common.run(args, timeout=1800)
    if rc != 0:
        raise Infra("fiforeal driver failed rc=%d: %s" % (rc, out[-3000:]))
    summ = json.loads(out.strip().splitlines()[-1])
    scen = {s["id"]: s for s in summ["scenarios"]}
    res.coverage["evaluations"] += len(scen)
    res.coverage["distinct_nontrivial"] += summ["contended"]
    res.coverage["real_jobs"] = summ["jobs"]
    validate(res, scratch, tp, scen, prop="C05", leg="real")
    if summ["scenarios"]:
        res.sample({"real_scenario": summ["scenarios"][0]})
