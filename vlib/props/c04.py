"""C04 - flush liveness: a backlog always drains when the peer makes room (see vlib/nbconn.py)."""
from .. import nbconn_props


def run(res, scratch, *, tier, seed, replay):
    nbconn_props.run_focus(res, scratch, "C04", tier=tier, seed=seed, replay=replay)
