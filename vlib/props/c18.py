"""C18 - Stop always terminates and reclaims connections, goroutines and descriptors.

impl-level spec : specs/EngineLife.tla  -- Start / loops / accept / add / peer close / Stop at the grain of the
                                           steps whose order decides the property; TLC exhaustive with the
                                           repairs on (holds) and off (reproduces the defects that were fixed)
deciding monitor: specs/StopMon.tla via StopMonTrace
binding G->V    : behaviours sampled by TLC's simulator are classified by the order of their key actions (Stop
                  before the loops run, accept before / register after the listeners are closed, add after the
                  snapshot, peer close during the close-all phase) and become scenarios of harness/cmd/stoplife,
                  which forces that order on real engines (gate listener, slow OnOpen, storms, racing dials)
"""
import json
import os
import random

from .. import common
from ..common import Infra

CFG = """SPECIFICATION Spec
CONSTANTS
  Order <- Ord
  Conns <- %(conns)s
  PreOpen <- %(pre)s
  Dials <- %(dials)s
  Fix <- %(fix)s
INVARIANTS TypeOK AllClosedAtReturn AllNotifiedAtReturn WaitGroupDiscipline
PROPERTIES StopReturns NoZombie
CHECK_DEADLOCK FALSE
"""
SIMCFG = """SPECIFICATION Spec
CONSTANTS
  Order <- Ord
  Conns <- C3
  PreOpen <- P1
  Dials <- D2
  Fix <- FixAll
INVARIANTS TypeOK AllClosedAtReturn AllNotifiedAtReturn WaitGroupDiscipline
CHECK_DEADLOCK FALSE
"""


def classify(beh):
    """order of the key actions of one behaviour -> race class + history"""
    pos = {}
    for i, (h, st) in enumerate(beh):
        if not h:
            continue
        n, _args = common.action_name_args(h)
        pos.setdefault(n, []).append(i)
    first = lambda n: pos[n][0] if n in pos else None
    sl = first("SListeners")
    snap = first("SSnapshot")
    if sl is None:
        return None
    begins = pos.get("LBegin", [])
    info = {"pre_accepts": sum(1 for i in pos.get("LRegister", []) if i < sl),
            "pre_dials": sum(1 for i in pos.get("DAdd", []) if i < sl),
            "pre_peerclose": sum(1 for i in pos.get("PClose", []) if i < sl)}
    if len([b for b in begins if b < sl]) < 2:
        return dict(info, race="immediate")
    if any(a < sl for a in pos.get("LAccept", [])) and any(r > sl for r in pos.get("LRegister", [])):
        return dict(info, race="lateaccept")
    if any(d > sl for d in pos.get("DAdd", [])):
        return dict(info, race="dialrace")
    if any(p > sl for p in pos.get("PClose", [])):
        return dict(info, race="peerclose")
    return dict(info, race="none")


def scenarios(res, scratch, tier, seed):
    rnd = random.Random(seed * 65537 + 18)
    n = 160 if tier == "quick" else 1200
    behs, _ = common.tlc_simulate(scratch, "EngineLifeMC", cfg_text=SIMCFG, num=n, depth=40, seed=seed)
    classes = {}
    scens = []
    kinds = ["core", "core", "http-nb", "http-blk", "http-mixed"]
    for bi, beh in enumerate(behs):
        c = classify(beh)
        if c is None:
            continue
        classes[c["race"]] = classes.get(c["race"], 0) + 1
        kind = kinds[bi % len(kinds)]
        race = c["race"]
        if race == "dialrace" and kind != "core":
            race = "storm"            # the HTTP engines add connections through their accept loops and upgrades only
        if race == "lateaccept" and bi % 3 == 1:
            race = "slowopen"         # same order of actions, forced through a slow OnOpen instead of the gate
        if race == "none" and bi % 4 == 0:
            race = rnd.choice(["storm", "closerace" if kind == "core" else "storm"])
        mode = rnd.choice(["LT", "ET", "OS"])
        a = kind == "core" and rnd.random() < 0.25
        scens.append({"id": "b%d-%s-%s" % (bi, kind, race), "kind": kind, "mode": "ET" if a else mode, "async": a,
                      "npoller": rnd.choice([1, 2, 4]), "nlisten": rnd.choice([1, 2]),
                      "idle": c["pre_accepts"] + rnd.choice([0, 2, 5]), "writing": rnd.choice([0, 1, 2]), "timers": rnd.choice([0, 2]),
                      "dials": (c["pre_dials"] + rnd.choice([0, 1])) if kind == "core" else 0,
                      "penddial": rnd.choice([0, 1]) if kind == "core" else 0,
                      "dialto": rnd.choice([0, 0, 1]) if kind == "core" else 0,
                      "sendfile": rnd.choice([0, 1, 2]) if kind == "core" else 0,
                      "wfail": rnd.choice([0, 0, 1, 2]) if kind == "core" else 0,
                      "transfer": rnd.choice([0, 2]) if kind == "http-blk" else 0,
                      "race": race, "delayus": rnd.choice([0, 50, 300, 2000]), "stopper": rnd.choice(["stop", "shutdown"])})
    res.notes.append("simulated behaviours by race class: %s" % classes)
    cap = 90 if tier == "quick" else 700
    # keep every class represented
    rnd.shuffle(scens)
    out, per = [], {}
    for s in scens:
        if per.get(s["race"], 0) < cap // 6 or len(out) < cap // 2:
            out.append(s)
            per[s["race"]] = per.get(s["race"], 0) + 1
        if len(out) >= cap:
            break
    return out


def report(res, lines, viol, byid, leg):
    for v in viol:
        i = v["line"] - 1
        while i >= 0 and lines[i].get("ev") != "reset":
            i -= 1
        hdr = lines[i]
        j = i + 1
        while j < len(lines) and lines[j].get("ev") != "reset":
            j += 1
        sc = byid.get(hdr.get("id"), {})
        res.report({"property": "C18", "leg": leg, "scenario": hdr.get("id"), "why": v["why"], "event": v["ev"], "kind": sc.get("kind"),
                    "race": sc.get("race"), "stopper": sc.get("stopper"), "mode": sc.get("mode"),
                    "script": sc, "trace": lines[i:j], "replay_key": {"id": hdr.get("id"), "why": v["why"], "steps": sc.get("steps")}})


def run(res, scratch, *, tier, seed, replay):
    res.coverage["rule"] = ("cases = engine lives: behaviours of EngineLife.tla sampled by TLC's simulator, classified by the order of "
                            "their key actions and forced on real engines (core nbio, nbhttp non-blocking / blocking / mixed; LT/ET/"
                            "one-shot; 1-4 pollers, 1-2 listeners; histories of idle, writing (8 MiB backlog), file-sending (16 MiB Sendfile queued), write-failed (peer reset under the writes), deadline-carrying, "
                            "dialed, still-connecting, timed-out-dial and transferred connections; Stop or Shutdown; races: Stop right after Start, accept "
                            "completed before and delivered after the listener close (0-2000 us), slow OnOpen, connection storm, "
                            "peers closing, application closing, DialAsync racing); non-trivial = a life with a race or >= 3 "
                            "connections (counted)")
    res.assumptions += ["a connection the kernel completed but the listener never accepted is not a managed connection (probed with one "
                        "byte: the kernel answers with a reset)",
                        "goroutines and descriptors are compared with the counts taken before the engine was created, after a settling "
                        "time of at most 3 s; Stop is given 8 s to return"]
    full = dict(conns="C2", pre="P1", dials="D1")
    r = common.tlc_check(scratch, "EngineLifeMC", cfg_text=CFG % dict(full, fix="FixAll"), timeout=900)
    res.add_model("enginelife-repaired-C2-D1", r)
    r3 = common.tlc_check(scratch, "EngineLifeMC", cfg_text=CFG % dict(conns="C3", pre="P1", dials="D2", fix="FixAll"), timeout=1800)
    res.add_model("enginelife-repaired-C3-D2", r3)
    res.coverage["exhaustive"] = True
    # the same model with the repairs switched off must reproduce the defects (guards against a vacuous model)
    for fix in ("FixNone", "FixNoReset", "FixAccept"):
        rc, out, dt = common.tlc_raw(scratch, "EngineLifeMC", None, cfg_text=CFG % dict(full, fix=fix), timeout=900)
        if "is violated" not in out and "Temporal properties were violated" not in out:
            raise Infra("EngineLife.tla with %s does not reproduce the repaired defects: the model is vacuous" % fix)
    res.notes.append("EngineLife.tla with Fix = {}, {noreset}, {noreset, joinlisteners}: TLC reports the violations that were "
                     "reproduced on the pinned code and repaired")
    ov = common.make_overlay(scratch, shim=[])
    binary = common.go_build(scratch, "./cmd/stoplife", overlay=ov, name="stoplife")
    if replay and json.load(open(replay)).get("leg") == "sim":
        stp, sbyid = run_sim(res, scratch, tier, seed, only=json.load(open(replay))["script"])
        sviol, sstats = common.tlc_validate(scratch, "StopMonTrace", stp, timeout=3000)
        res.coverage["traces_validated_against_impl"] += sstats.get("scenarios", 0)
        report(res, common.read_ndjson(stp), sviol, sbyid, "sim")
        return
    if replay:
        scens = [json.load(open(replay))["script"]]
    else:
        scens = scenarios(res, scratch, tier, seed)
    todo = list(scens)
    tp_all = scratch.fresh("strace") + ".ndjson"
    lines = []
    rounds = 0
    stuck_driver = 0
    while todo and rounds < 8:
        rounds += 1
        sp = scratch.fresh("sscen") + ".json"
        with open(sp, "w") as f:
            json.dump(todo, f)
        tp = scratch.fresh("strace") + ".ndjson"
        try:
            rc, out, dt = common.run([binary, "-trace", tp, "-scenarios", sp], timeout=90 + 4 * len(todo))
        except Infra as e:
            # the driver did not come back (the library corrupted the process, e.g. a Close on a dangling pointer):
            # what was flushed decides; the scenario in progress is skipped and counted
            rc, out = -1, str(e)
            stuck_driver += 1
        evs = common.read_ndjson(tp) if os.path.exists(tp) else []
        done_ids = [e["id"] for e in evs if e.get("ev") == "reset"]
        if rc != 0 and evs and evs[-1].get("ev") != "end":
            # cut the unfinished scenario
            k = len(evs) - 1
            while k >= 0 and evs[k].get("ev") != "reset":
                k -= 1
            unfinished = evs[k:]
            evs = evs[:k]
            if rc > 0:
                # the process died inside a scenario (a panic in the library): what was flushed decides
                evs += unfinished + [{"ev": "panic", "msg": out[-600:]}]
        lines += evs
        if rc != 0 and not done_ids:
            raise Infra("stoplife driver failed rc=%d: %s" % (rc, out[-2000:]))
        # the driver gives up after three stuck engines (polluted baselines): continue with the rest in a fresh process
        todo = [s for s in todo if s["id"] not in set(done_ids)]
    common.write_ndjson(tp_all, lines)
    if stuck_driver:
        res.notes.append("the driver process had to be killed %d time(s); the scenarios in progress were skipped" % stuck_driver)
    res.coverage["driver_killed"] = stuck_driver
    res.coverage["evaluations"] += len(scens) - len(todo)
    res.coverage["distinct_nontrivial"] += sum(1 for s in scens if s["race"] != "none" or s["idle"] + s["writing"] + s["timers"] >= 3)
    viol, stats = common.tlc_validate(scratch, "StopMonTrace", tp_all, timeout=3000)
    res.coverage["traces_validated_against_impl"] += stats.get("scenarios", 0)
    res.coverage["trace_events_validated"] = stats.get("events", 0)
    byid = {s["id"]: s for s in scens}
    report(res, lines, viol, byid, "real")
    if not replay:
        stp, sbyid = run_sim(res, scratch, tier, seed)
        sviol, sstats = common.tlc_validate(scratch, "StopMonTrace", stp, timeout=3000)
        res.coverage["traces_validated_against_impl"] += sstats.get("scenarios", 0)
        res.coverage["trace_events_validated"] += sstats.get("events", 0)
        report(res, common.read_ndjson(stp), sviol, sbyid, "sim")
    for s in scens[:3]:
        res.sample({"scenario": s})
    if not res.violations and (stuck_driver or len(todo) > len(scens) // 10):
        raise Infra("the stoplife driver did not finish %d of %d scenarios (killed %d time(s)) and nothing that ran was rejected"
                    % (len(todo), len(scens), stuck_driver))


# ---------------------------------------------------------------------------------------------------------
# direction G: behaviours of EngineLife.tla replayed on the real engine under the cooperative scheduler
# ---------------------------------------------------------------------------------------------------------
GCFG = """SPECIFICATION Spec
CONSTANTS
  Order <- Ord
  Conns <- %(conns)s
  PreOpen <- %(pre)s
  Dials <- %(dials)s
  Fix <- FixAll
INVARIANTS TypeOK AllClosedAtReturn AllNotifiedAtReturn WaitGroupDiscipline
CHECK_DEADLOCK FALSE
"""
SETS = {"C2": ["c1", "c2"], "C3": ["c1", "c2", "c3"], "P1": ["c1"], "None": [], "D1": ["d1"], "D2": ["d1", "d2"]}


GCFG_ADV = """SPECIFICATION Spec
CONSTANTS
  Order <- Ord
  Conns <- %(conns)s
  PreOpen <- %(pre)s
  Dials <- %(dials)s
  Fix <- %(fix)s
CHECK_DEADLOCK FALSE
"""


def sim_scripts(res, scratch, tier, seed, adversarial=False):
    """adversarial: schedules of the model with repairs switched OFF.  On the repaired code they cannot be followed (Stop
    blocks where the old code went on): the replay drifts, which is expected and reported separately; if a repair is undone
    they become feasible again and lead the real code into the violation."""
    from .. import graph
    if adversarial:
        cfgs = [dict(conns="C2", pre="P1", dials="D1", fix=f) for f in ("FixNone", "FixNoReset", "FixAccept")]
        cap = 150 if tier == "quick" else 1500
    else:
        cfgs = [dict(conns="C2", pre="P1", dials="D1"), dict(conns="C2", pre="None", dials="D1")]
        if tier == "thorough":
            cfgs += [dict(conns="C3", pre="P1", dials="D1"), dict(conns="C2", pre="P1", dials="D2")]
        cap = 500 if tier == "quick" else 5000
    scripts = []
    for ci, c in enumerate(cfgs):
        g, r = graph.tlc_graph(scratch, "EngineLifeMC", (GCFG_ADV if adversarial else GCFG) % c, timeout=1800)
        if not adversarial:
            res.add_model("enginelife-graph-%(conns)s-%(pre)s-%(dials)s" % c, r)
        npaths = g.count_paths(limit=10 ** 9)
        if npaths is not None and npaths <= cap:
            paths, _ = g.all_paths(cap=cap + 1, seed=seed)
            mode = "all %d maximal paths" % len(paths)
        else:
            paths = g.edge_tour(seed=seed)
            k = max(0, cap - len(paths))
            paths += g.random_walks(k, seed=seed)
            mode = "edge tour (%d edges) + %d random walks of ~%s maximal paths" % (g.nedges, k, npaths)
        res.notes.append("EngineLife graph %s%s: %s" % ("(repairs off) " if adversarial else "", c, mode))
        seen = set()
        for (i0, path) in paths:
            steps, xs = [], []
            prev = g.st(i0)
            for (lab, dst) in path:
                name, args = graph.label_name_args(lab)
                st = g.st(dst)
                arg = args[0] if args else ""
                if name == "LAccept":
                    arg = st["inhand"]
                kind = ""
                if name == "ARun":
                    kind, arg = prev["aq"][0][0], prev["aq"][0][1]
                steps.append({"a": name, "c": arg, "k": kind})
                xs.append({"table": len(st["table"]["$set"]), "opened": st["opened"], "notified": st["notified"], "spc": st["spc"]})
                prev = st
            if adversarial and len(scripts) % 2 == 1:
                # split every addition: AddConn begins (passes its "engine stopped?" check) at an earlier point of the schedule
                rnd = random.Random(seed * 31 + len(scripts))
                out = []
                for st in steps:
                    if st["a"] == "DAdd":
                        lo = max([k + 1 for k in range(len(out)) if out[k]["a"] == "LBegin" and out[k]["c"] == "ev"] or [len(out)])
                        out.insert(rnd.randint(min(lo, len(out)), len(out)), {"a": "DAddBegin", "c": st["c"], "k": ""})
                    out.append(st)
                if len(out) != len(steps):
                    steps, xs = out, []      # (no model states for the split schedule)
            key = tuple((s["a"], s["c"]) for s in steps)
            if key in seen:
                continue
            seen.add(key)
            scripts.append({"id": "%s-%d#%d" % ("adv" if adversarial else "sim", ci, len(scripts)), "pre": SETS[c["pre"]],
                            "conns": [x for x in SETS[c["conns"]] if x not in SETS[c["pre"]]],
                            "steps": steps, "x": xs, "mode": ("LT", "ET", "OS")[len(scripts) % 3], "race": "sim", "kind": "core",
                            "idle": 0, "writing": 0, "timers": 0})
    return scripts


def run_sim(res, scratch, tier, seed, only=None):
    ov = common.make_overlay(scratch, shim=["sync@.+timer", "syscall@.", "go@.+timer"])
    binary = common.go_build(scratch, "./cmd/stopsim", overlay=ov, name="stopsim")
    def drive(scripts):
        sp = scratch.fresh("simscripts") + ".ndjson"
        common.write_ndjson(sp, scripts)
        tp = scratch.fresh("simtrace") + ".ndjson"
        rc, out, dt = common.run([binary, "-scripts", sp, "-trace", tp], timeout=120 + len(scripts))
        if rc != 0:
            raise Infra("stopsim driver failed rc=%d: %s" % (rc, out[-3000:]))
        return tp, json.loads(out.strip().splitlines()[-1])
    scripts = [only] if only else sim_scripts(res, scratch, tier, seed)
    tp, summ = drive(scripts)
    res.coverage["evaluations"] += len(scripts)
    res.coverage["distinct_nontrivial"] += summ["interleaved"]
    res.coverage["drift"] += summ["drift"]
    res.coverage["sim_steps"] = summ["steps"]
    res.coverage["sim_stuck"] = summ["stuck"]
    if summ["drift"]:
        res.notes.append("drift (real code left the implementation-level model; not a verdict): %s" % summ["drift_at"])
    byid = {s["id"]: s for s in scripts}
    if not only:
        adv = sim_scripts(res, scratch, tier, seed, adversarial=True)
        tp2, summ2 = drive(adv)
        res.coverage["evaluations"] += len(adv)
        res.coverage["adversarial_scripts"] = len(adv)
        res.coverage["adversarial_drift"] = summ2["drift"]
        res.coverage["sim_stuck"] += summ2["stuck"]
        with open(tp, "a") as f, open(tp2) as f2:
            f.write(f2.read())
        byid.update({s["id"]: s for s in adv})
    return tp, byid
