"""C14 - WebSocket callbacks ordered and exactly-once; concurrent writes stay whole.

impl-level spec : specs/WsSend.tla   -- write side of websocket.Conn (direct and queued mode, drainer
                                        hand-over, CloseAndClean); TLC exhaustive, invariants + liveness
deciding monitor: specs/WsOrderMon.tla via WsOrderMonTrace
binding G       : paths of the WsSend state graph replayed on the real websocket.Conn under the
                  cooperative scheduler (harness/cmd/wsq; sync and go shimmed in nbhttp/websocket)
impl-level spec : specs/WsDispatch.tla -- dispatch of open / message / close callbacks in the three dispatch
                                          structures (job queue, inline reader, transferred with gate); TLC exhaustive,
                                          and with a repair switched off it reproduces the repaired defect
binding V       : real servers in every upgrade path x epoll mode x plain/TLS x direct/queued writes,
                  raw WebSocket clients (harness/cmd/wse2e); the recorded callback events are also checked for
                  conformance with WsDispatch.tla (WsDispatchTrace: unexplained event = drift, not a verdict)
"""
import json

from .. import common, graph, ws_e2e
from ..common import Infra

CFG = """SPECIFICATION Spec
CONSTANTS
  Writers <- %(writers)s
  Msgs <- %(msgs)s
  Async = %(async)s
  WithClose = %(close)s
  MaxDrainers = %(maxd)d
INVARIANTS TypeOK OneDrainer Whole NoDup WriterOrder NoLoss NoStrandedFrame ClosedRefuses
PROPERTY Drained
CHECK_DEADLOCK FALSE
"""

MSGS = {
    "M_a": lambda w: [2, 1] if w == "w1" else [1, 2],
    "M_b": lambda w: [3] if w == "w1" else [1, 1] if w == "w2" else [2],
    "M_c": lambda w: [1, 1, 1],
    "M_d": lambda w: [2, 2],
}
WRITERS = {"W2": ["w1", "w2"], "W3": ["w1", "w2", "w3"]}


def configs(tier):
    out = []
    for a in (True, False):
        out.append(dict(writers="W2", msgs="M_a", a=a, close=True))
        out.append(dict(writers="W3", msgs="M_b", a=a, close=False))
        if tier == "thorough":
            out.append(dict(writers="W2", msgs="M_c", a=a, close=True))
            out.append(dict(writers="W3", msgs="M_b", a=a, close=True))
            out.append(dict(writers="W3", msgs="M_d", a=a, close=False))
    for c in out:
        ws = WRITERS[c["writers"]]
        c["prog"] = {w: MSGS[c["msgs"]](w) for w in ws}
        c["maxd"] = sum(len(v) for v in c["prog"].values())
        c["name"] = "%s-%s-%s%s" % (c["writers"], c["msgs"], "queued" if c["a"] else "direct", "-close" if c["close"] else "")
    return out


def cfg_text(c):
    return CFG % dict(writers=c["writers"], msgs=c["msgs"], maxd=c["maxd"],
                      close="TRUE" if c["close"] else "FALSE", **{"async": "TRUE" if c["a"] else "FALSE"})


def scripts_from_graph(g, c, *, cap, seed, res):
    npaths = g.count_paths(limit=10 ** 9)
    if npaths is not None and npaths <= cap:
        paths, _ = g.all_paths(cap=cap + 1, seed=seed)
        mode = "all %d maximal paths" % len(paths)
    else:
        paths = g.edge_tour(seed=seed)
        k = max(0, cap - len(paths))
        paths += g.random_walks(k, seed=seed)
        mode = "edge tour (%d edges) + %d random walks of ~%s maximal paths" % (g.nedges, k, npaths)
    res.notes.append("%s: %s" % (c["name"], mode))
    scripts, seen = [], set()
    for (i0, path) in paths:
        steps = []
        for (lab, dst) in path:
            name, args = graph.label_name_args(lab)
            if name in ("WLock", "WGo", "WWrite"):
                t = args[0]
            elif name in ("DWrite", "DLock", "DErr"):
                t = "g%s" % args[0]
            elif name == "Close":
                t = "closer"
            else:
                raise Infra("unexpected action label %r" % lab)
            st = g.st(dst)
            steps.append({"t": t, "a": name, "x": {"wire": len(st["wire"])}})
        key = tuple(s["t"] for s in steps)
        if key in seen:
            continue
        seen.add(key)
        scripts.append({"id": "%s#%d" % (c["name"], len(scripts)), "async": c["a"], "close": c["close"], "wsmode": "queued" if c["a"] else "direct",
                        "writers": c["prog"], "order": sorted(c["prog"]), "steps": steps})
    # arrive variants (see vlib/props/c05.py): a writer, a drainer or the closer is moved up to the lock of its next critical
    # section early, without being granted it
    import random
    rnd = random.Random(seed * 613 + 11)
    extra = []
    for sc in scripts[:max(1, len(scripts) // 2)]:
        out, done = [], False
        for st in sc["steps"]:
            if rnd.random() < 0.35:
                prev = max([k for k in range(len(out)) if out[k]["t"] == st["t"]] or [-1])
                out.insert(rnd.randint(prev + 1, len(out)), {"t": st["t"], "a": "Arrive", "x": {}, "arr": True})
                done = True
            out.append(dict(st))
        if done:
            extra.append(dict(sc, id=sc["id"] + "~arr", steps=out))
    return scripts + extra


def run(res, scratch, *, tier, seed, replay):
    res.coverage["rule"] = ("cases = replay scripts (one per distinct thread-step sequence of the WsSend state graph: 2-3 writers, "
                            "messages of 1-3 frames, direct and queued mode, with and without a concurrent CloseAndClean) plus "
                            "end-to-end connections (5 upgrade paths x epoll modes x plain/TLS x direct/queued; 1-12 client "
                            "messages whole / split in 7-byte writes / fragmented with interleaved pings; 2-8 concurrent server "
                            "writers x 6-30 messages up to 70 KB; ends: close frame, abrupt, protocol violation behind queued "
                            "messages, peer gone mid-stream, peer gone during the open callback, two concurrent server-side Close calls); non-trivial = script "
                            "that switches threads >= 2 times, or connection with >= 2 writers and >= 3 client messages")
    res.assumptions += ["the client side of the end-to-end leg is the harness' own RFC 6455 codec (hlib/wsraw.go)",
                        "cooperative replay covers interleavings at the grain of lock acquisitions, go statements and writes on the "
                        "underlying connection"]
    if replay:
        rp = json.load(open(replay))
        if rp.get("leg") == "e2e":
            return ws_e2e.run(res, scratch, "C14", tier, seed, only=rp["script"])
        scripts = [rp["script"]]
    else:
        scripts = []
    ov = common.make_overlay(scratch, shim=["sync@nbhttp/websocket", "go@nbhttp/websocket"])
    binary = common.go_build(scratch, "./cmd/wsq", overlay=ov, name="wsq")
    if not replay:
        cap = 1200 if tier == "quick" else 12000
        for c in configs(tier):
            g, r = graph.tlc_graph(scratch, "WsSendMC", cfg_text(c), timeout=1800)
            res.add_model(c["name"], r)
            scripts += scripts_from_graph(g, c, cap=cap, seed=seed, res=res)
        res.coverage["exhaustive"] = True
    sp = scratch.fresh("scripts") + ".ndjson"
    common.write_ndjson(sp, scripts)
    tp = scratch.fresh("trace") + ".ndjson"
    rc, out, dt = common.run([binary, "-scripts", sp, "-trace", tp], timeout=3000)
    if rc != 0:
        raise Infra("wsq driver failed rc=%d: %s" % (rc, out[-3000:]))
    summ = json.loads(out.strip().splitlines()[-1])
    res.coverage["evaluations"] += len(scripts)
    res.coverage["distinct_nontrivial"] += summ["interleaved"]
    res.coverage["drift"] += summ["drift"]
    if summ["drift"]:
        res.notes.append("drift (real code left the implementation-level model; not a verdict): %s" % summ["drift_at"])
    res.coverage["sim_steps"] = summ["steps"]
    res.coverage["sim_stuck"] = summ["stuck"]
    ws_e2e.validate(res, scratch, "C14", tp, {s["id"]: s for s in scripts}, leg="sim")
    for s in scripts[:2]:
        res.sample({"script": s["id"], "steps": [x["t"] for x in s["steps"]]})
    if not replay:
        ws_e2e.dispatch_model(res, scratch)
        tp2 = ws_e2e.run(res, scratch, "C14", tier, seed)
        ws_e2e.dispatch_conformance(res, scratch, tp2)
