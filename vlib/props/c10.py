"""C10 - HTTP exchanges end to end.  HttpConn.tla (histories + their meaning), harness/cmd/httpe2e (real
nbhttp servers in every I/O mode x epoll mode x plain/TLS, raw pipelining clients, nbhttp.Client leg),
HttpConnMon.tla."""
import json
import random

from .. import common
from ..common import Infra

CFG = """SPECIFICATION Spec
CONSTANTS
  MaxReqs = %(n)d
  ReqSizes = {%(rq)s}
  RespSizes = {%(rs)s}
INVARIANTS TypeOK NothingBehindClose CloseIffDictated
CHECK_DEADLOCK FALSE
"""


def histories(res, scratch, tier, seed, n):
    behs, _ = common.tlc_simulate(scratch, "HttpConn", cfg_text=CFG % dict(n=4, rq="0, 10, 70000", rs="0, 10, 70000, 300000"),
                                  num=n * 2, depth=6, seed=seed)
    out = []
    for beh in behs:
        hdr, st = beh[-1]
        reqs = [{"ver": r["ver"], "conn": r["conn"], "post": r["post"], "reqsize": r["reqsize"], "respsize": r["respsize"],
                 "flush": r["flush"]} for r in st["reqs"]]
        if not reqs:
            continue
        out.append({"reqs": reqs, "closeafter": st["closeafter"]})
        if len(out) >= n:
            break
    return out


def run(res, scratch, *, tier, seed, replay):
    res.coverage["rule"] = ("cases = connections: each executes a request history sampled by TLC from HttpConn.tla (pipelining depth "
                            "1-4, HTTP/1.0 and 1.1, Connection absent/close/keep-alive, request bodies up to 70 KB, responses up to "
                            "300 KB, pipelined or answered-then-sent) against a real server; quick: 3 I/O modes x LT plain, "
                            "non-blocking x ET/one-shot, one TLS config, 8-16 concurrent connections each, half of the engines "
                            "with slow-reading clients; plus 60 nbhttp.Client requests against a raw server that delays and drops; "
                            "non-trivial = connection with >= 2 requests or a response >= 70 KB (counted)")
    res.assumptions += ["responses are decoded by net/http.ReadResponse; 'kept open' is observed as no EOF within 400 ms after the last "
                        "response", "TLS uses a run-time self-signed certificate and the std crypto/tls client"]
    r = common.tlc_check(scratch, "HttpConn", cfg_text=CFG % dict(n=3, rq="10", rs="10, 70000"), timeout=900)
    res.add_model("httpconn-3reqs", r)
    ov = common.make_overlay(scratch, shim=[])
    binary = common.go_build(scratch, "./cmd/httpe2e", overlay=ov, name="httpe2e")
    if replay:
        scens = [json.load(open(replay))["script"]]
        client = "0"
    else:
        client = "60" if tier == "quick" else "400"
        if tier == "quick":
            cfgs = [("nonblocking", "LT", False), ("blocking", "LT", False), ("mixed", "LT", False), ("nonblocking", "ET", False),
                    ("nonblocking", "OS", False), ("nonblocking", "LT", True), ("blocking", "LT", True)]
            per = 10
        else:
            cfgs = [(i, m, t) for i in ("nonblocking", "blocking", "mixed") for m in ("LT", "ET", "OS") for t in (False, True)]
            per = 48
        hs = histories(res, scratch, tier, seed, per * len(cfgs))
        scens = []
        for ci, (iom, mode, tls) in enumerate(cfgs):
            chunk = hs[ci * per:(ci + 1) * per] or hs[:per]
            scens.append({"id": "%s-%s-%s" % (iom, mode, "tls" if tls else "plain"), "iomod": iom, "mode": mode, "tls": tls,
                          "histories": chunk, "slowread": ci % 2 == 1})
    sp = scratch.fresh("hscen") + ".json"
    with open(sp, "w") as f:
        json.dump(scens, f)
    tp = scratch.fresh("htrace") + ".ndjson"
    rc, out, dt = common.run([binary, "-trace", tp, "-scenarios", sp, "-client", client], timeout=3000)
    if rc != 0:
        crash = common.library_crash(out)
        if crash:
            # the process died inside library code: nothing was answered any more on any connection
            res.report({"property": "C10", "why": "a panic / fatal error in a library goroutine killed the process", "detail": crash,
                        "script": {"scenarios": [s["id"] for s in scens]}, "trace": out[-3000:].splitlines()[-40:],
                        "replay_key": {"crash": crash}})
            return
        raise Infra("httpe2e driver failed rc=%d: %s" % (rc, out[-2000:]))
    n = json.loads(out.strip().splitlines()[-1])["connections"]
    res.coverage["evaluations"] += n
    res.coverage["distinct_nontrivial"] += sum(1 for s in scens for h in s["histories"]
                                               if len(h["reqs"]) >= 2 or any(r["respsize"] >= 70000 for r in h["reqs"]))
    viol, stats = common.tlc_validate(scratch, "HttpConnMonTrace", tp, timeout=3000)
    res.coverage["traces_validated_against_impl"] += stats.get("scenarios", 0)
    res.coverage["trace_events_validated"] = stats.get("events", 0)
    byid = {s["id"]: s for s in scens}
    if viol:
        events = common.read_ndjson(tp)
        for v in viol:
            i = v["line"] - 1
            while i >= 0 and events[i].get("ev") != "reset":
                i -= 1
            cid = events[i].get("id")
            j = i + 1
            while j < len(events) and events[j].get("ev") != "reset":
                j += 1
            sid = cid.split("/")[0]
            sc = byid.get(sid, {})
            hist = None
            if "/c" in cid and sc:
                hist = sc["histories"][int(cid.split("/c")[1])]
            last = (hist or {"reqs": [{}]})["reqs"][-1]
            res.report({"property": "C10", "conn": cid, "why": v["why"], "event": v["ev"], "iomod": sc.get("iomod"), "mode": sc.get("mode"),
                        "tls": sc.get("tls"), "slowread": sc.get("slowread"), "lastconn": last.get("conn"), "lastver": last.get("ver"),
                        "bigresp": bool(hist and any(r["respsize"] >= 70000 for r in hist["reqs"])),
                        "script": dict(sc, histories=[hist]) if hist else {"id": cid}, "trace": events[i:j][:40],
                        "replay_key": {"hist": hist, "cfg": sid, "why": v["why"]}})
    res.sample({"config": scens[0]["id"], "history": scens[0]["histories"][0]})
