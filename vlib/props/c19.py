"""C19 - executors: task pool (TaskPool.tla / PoolMon.tla, recorded leg) and the engine's asynchronous
queue Timer.Async (HeadDrain.tla Variant = "async" / FifoMon.tla, cooperative replay + recorded leg)."""
import json
import random

from .. import common, graph
from ..common import Infra
from . import c05

TP_CFG = """SPECIFICATION Spec
CONSTANTS
  N = %(n)d
  Q = %(q)d
  Subs <- %(subs)s
  PerSub = %(per)d
  WithStop = %(stop)s
  Fix <- AllFix
INVARIANTS AtMostOnce WithinBound ExactlyOnceAtIdle CapacityRecovers CounterSane
CHECK_DEADLOCK FALSE
"""


def pool_scenarios(tier, seed):
    rnd = random.Random(seed * 17 + 3)
    out = []
    bounds = [(2, 4), (4, 8), (8, 64)] if tier == "quick" else [(2, 1), (2, 4), (3, 2), (4, 8), (8, 64), (64, 1024)]
    reps = 1 if tier == "quick" else 4
    for rep in range(reps):
        for (b, q) in bounds:
            for procs in (1, 4, 16):
                for stop in (False, True):
                    out.append(dict(bound=b, queue=q, subs=6, tasks=40 if tier == "quick" else 120, stop=stop,
                                    gomaxprocs=procs, io=False))
                # the I/O task pool (taskpool.NewIO: the engine's default IOExecute) shares the protocol and must keep the bound
                out.append(dict(bound=b, queue=q, subs=6, tasks=40 if tier == "quick" else 120, stop=False,
                                gomaxprocs=procs, io=True))
    for i, s in enumerate(out):
        s.update(id="%s-b%d-q%d-p%d%s#%d" % ("iopool" if s["io"] else "pool", s["bound"], s["queue"], s["gomaxprocs"], "-stop" if s["stop"] else "", i),
                 seed=rnd.randrange(1 << 40), leg="real")
    return out


def validate_pool(res, scratch, trace_path, scen_by_id):
    viol, stats = common.tlc_validate(scratch, "PoolMonTrace", trace_path)
    res.coverage["traces_validated_against_impl"] += stats.get("scenarios", 0)
    res.coverage["trace_events_validated"] = res.coverage.get("trace_events_validated", 0) + stats.get("events", 0)
    if not viol:
        return
    events = common.read_ndjson(trace_path)
    for v in viol:
        i = v["line"] - 1
        while i >= 0 and events[i].get("ev") != "reset":
            i -= 1
        sid = events[i].get("id") if i >= 0 else "?"
        sc = scen_by_id.get(sid, {})
        res.report({"property": "C19", "leg": "pool", "scenario": sid, "why": v["why"], "event": v["ev"],
                    "event_kind": v["ev"].get("ev"), "bound": sc.get("bound"), "stop": sc.get("stop"), "script": sc,
                    "trace": events[max(i, v["line"] - 40):v["line"] + 1],
                    "replay_key": {"id": sid, "why": v["why"]}})


def run_pool(res, scratch, ov, tier, seed, only=None):
    binary = common.go_build(scratch, "./cmd/poolreal", overlay=ov, name="poolreal")
    scens = [only] if only else pool_scenarios(tier, seed)
    sp = scratch.fresh("pscen") + ".json"
    with open(sp, "w") as f:
        json.dump(scens, f)
    tp = scratch.fresh("ptrace") + ".ndjson"
    rc, out, dt = common.run([binary, "-trace", tp, "-scenarios", sp], timeout=3000)
    if rc != 0:
        raise Infra("poolreal driver failed rc=%d: %s" % (rc, out[-3000:]))
    summ = json.loads(out.strip().splitlines()[-1])
    res.coverage["evaluations"] += len(scens)
    res.coverage["distinct_nontrivial"] += summ["overloaded"]
    res.coverage["pool_tasks"] = summ["tasks"]
    validate_pool(res, scratch, tp, {s["id"]: s for s in scens})
    res.sample({"pool_scenario": scens[0]})


def run(res, scratch, *, tier, seed, replay):
    res.coverage["rule"] = ("cases = task-pool scenarios (bound x queue x GOMAXPROCS x Stop, 6 submitters x 40+ tasks) "
                            "and Timer.Async replay scripts (distinct thread-step sequences of the HeadDrain graph); "
                            "non-trivial = pool scenario in which the number of simultaneously running tasks reached the "
                            "fresh-pool capacity (overload), or a script that switches threads >= 2 times")
    res.assumptions += ["channels are not shimmed: the task pool is bound to its TLA+ model only through recorded traces "
                        "validated against PoolMon and the capacity probe; its interleavings are those the Go scheduler "
                        "produced under GOMAXPROCS 1/4/16"]
    ov, sched_bin = c05.build(scratch)
    if replay:
        rp = json.load(open(replay))
        sc = rp["script"]
        if rp.get("leg") == "pool":
            return run_pool(res, scratch, ov, tier, seed, only=sc)
        if rp.get("leg") == "asyncreal":
            return run_async_real(res, scratch, ov, tier)
        tp, summ = c05.run_sched(res, scratch, [sc], sched_bin)
        res.coverage["evaluations"] = 1
        c05.validate(res, scratch, tp, {sc["id"]: sc}, prop="C19", leg="sim")
        return
    # ---- task pool model ----
    tpcfgs = [dict(n=3, q=1, subs="S2", per=2, stop="FALSE"), dict(n=3, q=2, subs="S2", per=2, stop="TRUE")]
    if tier == "thorough":
        tpcfgs += [dict(n=4, q=1, subs="S2", per=3, stop="FALSE"), dict(n=3, q=1, subs="S2", per=3, stop="TRUE")]
    for c in tpcfgs:
        r = common.tlc_check(scratch, "TaskPoolMC", cfg_text=TP_CFG % c, timeout=1800)
        res.add_model("taskpool-N%(n)d-Q%(q)d-%(subs)s-x%(per)d-stop%(stop)s" % c, r)
    run_pool(res, scratch, ov, tier, seed)
    # ---- Timer.Async: HeadDrain, Variant = "async" ----
    cap = 1500 if tier == "quick" else 20000
    scripts = []
    for c in c05.configs(tier, "async"):
        g, r = graph.tlc_graph(scratch, "HeadDrainMC", c05.cfg_text(c, liveness=True), timeout=1800)
        res.add_model(c["name"], r)
        scripts += c05.scripts_from_graph(g, c, cap=cap, seed=seed, res=res)
    res.coverage["exhaustive"] = True
    tp, summ = c05.run_sched(res, scratch, scripts, sched_bin)
    res.coverage["evaluations"] += len(scripts)
    res.coverage["distinct_nontrivial"] += summ["interleaved"]
    res.coverage["drift"] += summ["drift"]
    if summ["drift"]:
        res.notes.append("drift: %s" % summ["drift_at"])
    c05.validate(res, scratch, tp, {s["id"]: s for s in scripts}, prop="C19", leg="sim")
    for s in scripts[:1]:
        res.sample({"async_script": s["id"], "steps": [x["t"] for x in s["steps"]]})
    run_async_real(res, scratch, ov, tier)


def run_async_real(res, scratch, ov, tier):
    """Free-running Timer.Async with backlogs above the list-shrinking threshold (cap > 1024)."""
    binary = common.go_build(scratch, "./cmd/asyncreal", overlay=ov, name="asyncreal")
    tp = scratch.fresh("atrace") + ".ndjson"
    phases = "16,1500,16,16" if tier == "quick" else "16,1500,16,16,3000,1,40,1100,5,5"
    rc, out, dt = common.run([binary, "-trace", tp, "-phases", phases, "-reps", "2" if tier == "quick" else "5"], timeout=600)
    if rc != 0:
        raise Infra("asyncreal driver failed rc=%d: %s" % (rc, out[-2000:]))
    viol, stats = common.tlc_validate(scratch, "SeqFifoMonTrace", tp)
    res.coverage["traces_validated_against_impl"] += stats.get("scenarios", 0)
    res.coverage["trace_events_validated"] = res.coverage.get("trace_events_validated", 0) + stats.get("events", 0)
    res.coverage["evaluations"] += stats.get("scenarios", 0)
    res.coverage["async_real_functions"] = json.loads(out.strip().splitlines()[-1])["functions"]
    events = common.read_ndjson(tp) if viol else []
    for v in viol:
        res.report({"property": "C19", "leg": "asyncreal", "why": v["why"], "event": v["ev"], "event_kind": v["ev"].get("ev"),
                    "script": {"id": "asyncreal", "phases": phases, "leg": "asyncreal"},
                    "trace": events[max(0, v["line"] - 30):v["line"] + 1], "replay_key": {"why": v["why"], "leg": "asyncreal"}})
