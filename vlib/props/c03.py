"""C03 - connection life cycle: exactly one close notification, first cause, closed indication after
Close, descriptor closed once; truthful asynchronous dial.

impl-level spec : specs/ConnLife.tla (closers x writers x poller hang-up handling at lock/syscall grain)
deciding monitor: specs/LifeMon.tla
binding G       : ConnLife state graphs replayed on the real Conn against the model kernel (cmd/nbconn)
binding V       : real sockets: peer close / reset, concurrent Close, write to a reset peer, DialAsync to a
                  listening / refused / black-holed address (cmd/lifereal)
"""
import json
import random

from .. import common, graph, nbconn
from ..common import Infra

CFG = """SPECIFICATION Spec
CONSTANTS
  Closers <- %(closers)s
  Writers <- %(writers)s
  FailWriters <- %(fail)s
  WithPeerClose = %(peer)s
INVARIANTS NotifiedOnce FdClosedOnce TableBeforeFd NoLateSyscall ExactlyOnceAtQuiescence FirstCause
CHECK_DEADLOCK FALSE
"""
SETS = {"C1": ["c1"], "C2": ["c1", "c2"], "C3": ["c1", "c2", "c3"], "W0": [], "W1": ["w1"], "W2": ["w1", "w2"]}


def configs(tier):
    out = [dict(closers="C2", writers="W1", fail="W0", peer="TRUE"),
           dict(closers="C2", writers="W1", fail="W1", peer="FALSE"),
           dict(closers="C1", writers="W2", fail="W1", peer="TRUE")]
    if tier == "thorough":
        out += [dict(closers="C3", writers="W1", fail="W1", peer="TRUE"),
                dict(closers="C2", writers="W2", fail="W1", peer="TRUE"),
                dict(closers="C3", writers="W0", fail="W0", peer="TRUE")]
    for c in out:
        c["name"] = "life-%(closers)s-%(writers)s-fail%(fail)s-peer%(peer)s" % c
    return out


def scripts_for(g, c, *, cap, seed, res):
    npaths = g.count_paths(limit=10 ** 9)
    if npaths is not None and npaths <= cap:
        paths, _ = g.all_paths(cap=cap + 1, seed=seed)
        mode = "all %d maximal paths" % len(paths)
    else:
        paths = g.edge_tour(seed=seed)
        k = max(0, cap - len(paths))
        paths += g.random_walks(k, seed=seed)
        mode = "edge tour (%d edges) + %d random walks of ~%s maximal paths" % (g.nedges, k, npaths)
    res.notes.append("%s: %s" % (c["name"], mode))
    closers, writers, fail = SETS[c["closers"]], SETS[c["writers"]], SETS[c["fail"]]
    threads = {"o": []}
    for t in closers:
        threads[t] = [{"op": "close"}]
    for t in writers:
        threads[t] = [{"op": "write", "n": 1}]
    scripts = []
    seen = set()
    for (i0, path) in paths:
        steps = [{"t": "o", "a": "OpenAddLock"}, {"t": "o", "a": "OpenAdd"}]
        for (lab, dst) in path:
            name, args = graph.label_name_args(lab)
            st = g.st(dst)
            x = {"closed": int(st["closed"]), "fdcloses": st["fdcloses"]}
            if name in ("CLock", "CFd", "WLock", "WSys", "WFd"):
                t = args[0]
                if name == "WSys" and t in fail:
                    steps.append({"env": "epipe", "a": "inject"})
                steps.append({"t": t, "a": name, "x": x})
            elif name in ("PWait", "PRLock", "PRSys", "PCLock", "PFd"):
                steps.append({"t": "p", "a": name, "x": x})
            elif name == "PeerClose":
                steps.append({"env": "peerclose", "a": name})
            else:
                raise Infra("unexpected action label %r" % lab)
        key = tuple((s.get("t"), s.get("env")) for s in steps)
        if key in seen:
            continue
        seen.add(key)
        scripts.append({"id": "%s#%d" % (c["name"], len(scripts)), "focus": "C03", "mode": "LT", "transport": "tcp", "sndcap": 100,
                        "maxwb": 0, "rdbuf": 4, "maxread": 2, "threads": threads, "order": ["o"] + closers + writers,
                        "steps": steps, "eager": False, "origin": "goroutine", "alloc": "default", "leg": "sim"})
    return scripts


def validate(res, scratch, trace_path, scen_by_id, leg):
    viol, stats = common.tlc_validate(scratch, "LifeMonTrace", trace_path)
    res.coverage["traces_validated_against_impl"] += stats.get("scenarios", 0)
    res.coverage["trace_events_validated"] = res.coverage.get("trace_events_validated", 0) + stats.get("events", 0)
    if not viol:
        return
    events = common.read_ndjson(trace_path)
    for v in viol:
        i = v["line"] - 1
        while i >= 0 and events[i].get("ev") != "reset":
            i -= 1
        sid = events[i].get("id") if i >= 0 else "?"
        j = i + 1
        while j < len(events) and events[j].get("ev") != "reset":
            j += 1
        sc = scen_by_id.get(sid, {})
        res.report({"property": "C03", "leg": leg, "scenario": sid, "why": v["why"], "event": v["ev"], "mode": sc.get("mode"),
                    "transport": sc.get("transport"), "kind": sc.get("kind"), "script": sc, "trace": events[i:j][:120],
                    "replay_key": {"steps": [(s.get("t"), s.get("env")) for s in sc.get("steps", [])], "id": sid if not sc.get("steps") else None,
                                   "why": v["why"]}})


def run(res, scratch, *, tier, seed, replay):
    res.coverage["rule"] = ("cases = replay scripts from the ConnLife state graph (every maximal path when few, else edge tour + "
                            "walks) plus real-socket termination scenarios and asynchronous dials; non-trivial = scripts in "
                            "which at least two threads compete for the close (counted: every script with >= 2 closing causes)")
    res.assumptions += ["sim leg: level-triggered mode, model kernel; other modes and real kernel causes in the real leg",
                        "the close notification travels through the engine's asynchronous queue (a real goroutine): its "
                        "position in the trace is only constrained as 'after open, once, before quiescence'"]
    ov, binary = nbconn.build(scratch)
    if replay:
        rp = json.load(open(replay))
        sc = rp["script"]
        if sc.get("leg") == "real":
            return run_real(res, scratch, ov, tier, seed, only=sc)
        tp, summ = nbconn.run_driver(res, scratch, [sc], binary)
        res.coverage["evaluations"] = 1
        validate(res, scratch, tp, {sc["id"]: sc}, "sim")
        return
    cap = 1200 if tier == "quick" else 20000
    scripts = []
    for c in configs(tier):
        g, r = graph.tlc_graph(scratch, "ConnLifeMC", CFG % c, timeout=900)
        res.add_model(c["name"], r)
        scripts += scripts_for(g, c, cap=cap, seed=seed, res=res)
    res.coverage["exhaustive"] = True
    tp, summ = nbconn.run_driver(res, scratch, scripts, binary)
    res.coverage["evaluations"] += len(scripts)
    res.coverage["distinct_nontrivial"] += len(scripts)
    res.coverage["drift"] += summ["drift"]
    res.coverage["sim_steps"] = summ["steps"]
    if summ["drift"]:
        res.notes.append("drift (real code left the implementation-level model; not a verdict): %s" % summ["drift_at"][:6])
    validate(res, scratch, tp, {s["id"]: s for s in scripts}, "sim")
    for s in scripts[:2]:
        res.sample({"script": s["id"], "steps": [x.get("t") or x.get("env") for x in s["steps"]]})
    run_real(res, scratch, ov, tier, seed)


def run_real(res, scratch, ov, tier, seed, only=None):
    binary = common.go_build(scratch, "./cmd/lifereal", overlay=ov, name="lifereal")
    rnd = random.Random(seed * 37 + 1)
    if only:
        scens = [only]
    else:
        scens = []
        kinds = ["peerclose", "peerreset", "hammer", "writereset", "flushreset", "sendfilereset", "stop", "dial-ok", "dial-refused",
                 "dial-timeout", "dial-peerclose", "dial-pending-stop"]
        reps = 2 if tier == "quick" else 10
        for rep in range(reps):
            for mode in ("LT", "ET", "OS"):
                for transport in ("tcp", "unix"):
                    for kind in kinds:
                        if transport == "unix" and kind in ("dial-timeout", "dial-pending-stop", "peerreset", "writereset", "flushreset", "sendfilereset"):
                            continue
                        scens.append({"id": "real-%s-%s-%s#%d" % (mode, transport, kind, len(scens)), "mode": mode, "transport": transport,
                                      "kind": kind, "seed": rnd.randrange(1 << 40), "leg": "real", "conns": 4})
    sp = scratch.fresh("lscen") + ".json"
    with open(sp, "w") as f:
        json.dump(scens, f)
    tp = scratch.fresh("ltrace") + ".ndjson"
    rc, out, dt = common.run([binary, "-trace", tp, "-scenarios", sp], timeout=3000)
    class M(dict):
        def get(self, k, d=None):
            return dict.get(self, (k or "").split("/")[0], d)
    if rc != 0:
        # the process died (a panic in a library goroutine cannot be recovered by the driver).  What it observed
        # and put on disk before dying is still real behaviour: a verdict if the monitor rejects it, else inconclusive.
        import os
        before = len(res.violations) + sum(res.known.values())
        if os.path.exists(tp) and os.path.getsize(tp) > 0:
            lines = [l for l in open(tp).read().split("\n") if l.strip()]
            good = []
            for l in lines:
                try:
                    json.loads(l)
                    good.append(l)
                except ValueError:
                    break
            with open(tp, "w") as f:
                f.write("\n".join(good) + "\n")
            validate(res, scratch, tp, M({s["id"]: s for s in scens}), "real")
        if len(res.violations) + sum(res.known.values()) == before:
            raise Infra("lifereal driver failed rc=%d: %s" % (rc, out[-3000:]))
        res.notes.append("the real-leg driver process died after the recorded violation: %s" % out[-300:])
        return
    summ = json.loads(out.strip().splitlines()[-1])
    res.coverage["evaluations"] += summ["connections"]
    res.coverage["distinct_nontrivial"] += summ["connections"]
    res.coverage["real_connections"] = summ["connections"]
    byid = {}
    for s in scens:
        byid[s["id"]] = s
    # the driver emits one reset per connection: id = "<scenario id>/<n>"
    class M(dict):
        def get(self, k, d=None):
            return dict.get(self, (k or "").split("/")[0], d)
    validate(res, scratch, tp, M(byid), "real")
    res.sample({"real_scenario": scens[0]})
