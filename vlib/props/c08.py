"""C08 - HTTP parser robustness and bounds."""
from .. import http_props


def run(res, scratch, *, tier, seed, replay):
    http_props.run_focus(res, scratch, "C08", tier=tier, seed=seed, replay=replay)
