"""C06 - HTTP/1.x parsing is independent of segmentation."""
from .. import http_props


def run(res, scratch, *, tier, seed, replay):
    http_props.run_focus(res, scratch, "C06", tier=tier, seed=seed, replay=replay)
