"""C11 - pooled-buffer ownership: the HTTP response leg (resp_props) and the WebSocket codec leg
(ws_props scenarios under the tracking allocator)."""
from .. import resp_props, ws_props, ws_e2e, common


def run(res, scratch, *, tier, seed, replay):
    if replay:
        import json
        rp = json.load(open(replay))
        if rp.get("leg") == "e2e":
            return ws_e2e.run(res, scratch, "C11", tier, seed, only=rp["script"])
        sc = rp["script"]
        if sc.get("mode") in ("C12", "C13", "C15"):
            return ws_props.run_focus(res, scratch, "C11", tier=tier, seed=seed, replay=replay)
        return resp_props.run_focus(res, scratch, "C11", tier=tier, seed=seed, replay=replay)
    resp_props.run_focus(res, scratch, "C11", tier=tier, seed=seed, replay=None)
    # WebSocket codec scenarios under the ownership-tracking allocator
    ov = common.make_overlay(scratch, shim=[])
    binary = common.go_build(scratch, "./cmd/wscodec", overlay=ov, name="wscodec")
    cases = ws_props.c12_cases(tier, seed, "C11")
    cases = [c for i, c in enumerate(cases) if i % (4 if tier == "quick" else 1) == 0]
    cases += [c for i, c in enumerate(ws_props.c13_cases(res, scratch, tier, seed, "C11")) if i % (3 if tier == "quick" else 1) == 0]
    cases += ws_props.c15_cases(tier, seed, "C11")
    ws_props.run_cases(res, scratch, binary, cases, "C11")
    res.coverage["distinct_nontrivial"] += len(cases)
    # real servers with the tracking allocator behind Config.BodyAllocator and mempool.DefaultMemPool
    ws_e2e.run(res, scratch, "C11", tier, seed)
