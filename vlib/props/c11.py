"""C11 - pooled-buffer ownership."""
from .. import resp_props


def run(res, scratch, *, tier, seed, replay):
    resp_props.run_focus(res, scratch, "C11", tier=tier, seed=seed, replay=replay)
