"""C07 - HTTP parsing agrees with net/http on well-formed messages."""
from .. import http_props


def run(res, scratch, *, tier, seed, replay):
    http_props.run_focus(res, scratch, "C07", tier=tier, seed=seed, replay=replay)
