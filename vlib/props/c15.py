"""C15 - WebSocket codec (see vlib/ws_props.py)."""
from .. import ws_props


def run(res, scratch, *, tier, seed, replay):
    ws_props.run_focus(res, scratch, "C15", tier=tier, seed=seed, replay=replay)
