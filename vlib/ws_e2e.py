"""End-to-end WebSocket leg (direction V) shared by C14 (all clauses) and, with their own emphasis, C05,
C11, C12, C13: harness/cmd/wse2e runs real servers in every upgrade path; the trace is validated by TLC
against WsOrderMonTrace.  A rejection is reported by the property whose clause it violates; rejections
of other clauses are noted (the owning property's check reports them)."""
import json
import os
import random

from . import common
from .common import Infra

ORDER = ["open callback ran twice", "message callback ran before the open callback had completed",
         "message callbacks of one connection overlap", "message callback after the close callback",
         "message callbacks not in wire order (or a message lost / duplicated)", "close callback ran twice",
         "close callback ran while a message / open callback was still running", "the close callback never ran",
         "engine close callback ran twice", "engine close callback ran while a callback of the connection was still running"]
WIRE = ["a message arrived corrupted", "a written message was lost, duplicated or reordered within its writer",
        "frames of concurrently written messages are interleaved on the wire",
        "a message whose WriteMessage returned nil never reached the wire"]
PROTO = ["a close frame was not answered", "a protocol violation did not fail the connection"]
OWN = ["allocator handed out a buffer that is still live elsewhere", "buffer returned to the pool twice",
       "free of a buffer that was never allocated", "buffer used after it was returned to the pool",
       "bytes of a freed buffer were modified (write after free)"]
CLAUSES = {
    "C14": set(ORDER + WIRE + ["panic"]),
    "C05": set(ORDER + ["panic"]),
    "C12": set(WIRE + [ORDER[4]]),
    "C13": set(PROTO),
    "C11": set(OWN + [WIRE[0]]),
}
ENDS = ["closeframe", "abrupt", "badtail", "mid", "srvclose", "early", "stall"]


def conn_plans(rnd, n, ends, *, force=None, path=""):
    out = []
    for k in range(n):
        end = ends[k % len(ends)]
        nmsg = rnd.choice([1, 3, 6, 12])
        p = {"nmsg": nmsg if end != "early" else rnd.choice([0, 1]), "goat": rnd.randrange(nmsg),
             "chunk": rnd.choice(["one", "split", "frag", "one"]),
             "writers": rnd.choice([2, 4, 8]), "perwriter": rnd.choice([6, 15, 30]), "big": rnd.random() < 0.5,
             "end": end, "slowopen": rnd.random() < 0.6, "slowmsg": rnd.random() < 0.4,
             "slowread": rnd.random() < 0.3, "earlydata": False}
        if p["nmsg"] and p["goat"] >= p["nmsg"]:
            p["goat"] = 0
        if force:
            p.update(force(rnd, k, p))
        if path != "blkparser":
            # frames sent before the 101 arrived (RFC 6455 4.1 forbids it) are consumed by net/http's reader or refused by
            # the non-blocking parser; only the blocking parser hands them to the upgraded connection
            p["earlydata"] = False
        out.append(p)
    return out


def all_configs():
    cfgs = []
    for path in ("poller", "transfer", "stdtransfer"):
        for mode in ("LT", "ET", "OS"):
            for tls in (False, True):
                if path == "stdtransfer" and tls:
                    continue      # a net/http TLS connection cannot be handed to the poller
                cfgs.append((path, mode, tls, False))
    for path in ("blkparser", "ownloop"):
        for tls in (False, True):
            for a in (False, True):
                cfgs.append((path, "LT", tls, a))
    return cfgs


QUICK_CFGS = [("poller", "LT", False, False), ("poller", "ET", False, False), ("poller", "OS", False, False),
              ("poller", "LT", True, False), ("blkparser", "LT", False, True), ("blkparser", "LT", False, False),
              ("blkparser", "LT", True, True), ("ownloop", "LT", False, True), ("ownloop", "LT", False, False),
              ("ownloop", "LT", True, True), ("transfer", "LT", False, False), ("transfer", "ET", False, False),
              ("stdtransfer", "LT", False, False), ("stdtransfer", "OS", False, False), ("transfer", "LT", True, False)]


def scenarios(prop, tier, seed):
    rnd = random.Random(seed * 104729 + 5 + sum(map(ord, prop)))
    quick = tier == "quick"
    track = False
    force = None
    ends = ENDS
    if prop == "C14":
        cfgs, per = (QUICK_CFGS, 6) if quick else (all_configs(), 30)
    elif prop == "C05":
        # callbacks that go through the connection's job queue: poller-driven and transferred connections
        cfgs = [c for c in (QUICK_CFGS if quick else all_configs()) if c[0] in ("poller", "transfer", "stdtransfer")]
        per = 6 if quick else 24
        ends = ["badtail", "early", "mid", "closeframe", "abrupt"]
        force = lambda rnd, k, p: {"slowmsg": True, "chunk": rnd.choice(["frag", "frag", "one", "split"])}
    elif prop == "C12":
        cfgs = [c for i, c in enumerate(QUICK_CFGS) if i % 2 == 0] if quick else all_configs()
        per = 4 if quick else 16
        ends = ["closeframe", "abrupt"]
        force = lambda rnd, k, p: {"big": True, "writers": 8, "slowread": k % 2 == 0, "perwriter": rnd.choice([15, 30])}
    elif prop == "C13":
        cfgs = all_configs() if not quick else [c for c in all_configs() if c[1] == "LT"]
        per = 4 if quick else 12
        ends = ["badtail", "closeframe"]
    elif prop == "C11":
        cfgs = [c for c in (QUICK_CFGS if quick else all_configs())]
        per = 6 if quick else 20
        ends = ["mid", "closeframe", "stall", "abrupt", "badtail", "stall", "early"]
        track = True
        force = lambda rnd, k, p: ({"earlydata": k % 3 == 0, "big": True, "writers": 8, "perwriter": 60} if p["end"] == "stall" else
                                   {"earlydata": k % 3 == 0, "slowread": k % 2 == 0, "big": k % 4 in (0, 1),
                                    "writers": 8 if k % 4 == 0 else p["writers"], "perwriter": 30 if k % 4 == 0 else p["perwriter"]})
    else:
        raise Infra("no e2e scenarios for " + prop)
    scens = []
    for (path, mode, tls, a) in cfgs:
        conns = conn_plans(rnd, per, ends, force=force, path=path)
        if prop in ("C14", "C05") and path in ("poller", "transfer", "stdtransfer") and not tls:
            # one connection that streams thousands of small messages through the connection's job queue: the hand-over between
            # the poller (appending jobs) and the runner (finishing) happens thousands of times
            conns.append({"nmsg": 3000 if quick else 12000, "goat": 0, "chunk": "stream", "writers": 2, "perwriter": 6, "big": False,
                          "end": "closeframe", "slowopen": False, "slowmsg": False, "slowread": False, "earlydata": False})
        scens.append({"id": "%s-%s-%s-%s" % (path, mode, "tls" if tls else "plain", "queued" if a else "direct"),
                      "path": path, "mode": mode, "tls": tls, "async": a, "track": track, "conns": conns})
    return scens


def validate(res, scratch, prop, tp, scen_by_id, *, leg):
    viol, stats = common.tlc_validate(scratch, "WsOrderMonTrace", tp, timeout=3000)
    res.coverage["traces_validated_against_impl"] += stats.get("scenarios", 0)
    res.coverage.setdefault("trace_events_validated", 0)
    res.coverage["trace_events_validated"] += stats.get("events", 0)
    if not viol:
        return
    events = common.read_ndjson(tp)
    other = {}
    for v in viol:
        if v["why"] not in CLAUSES[prop]:
            other[v["why"]] = other.get(v["why"], 0) + 1
            continue
        i = v["line"] - 1
        while i >= 0 and events[i].get("ev") != "reset":
            i -= 1
        hdr = events[i]
        cid = hdr.get("id")
        j = i + 1
        while j < len(events) and events[j].get("ev") != "reset":
            j += 1
        sc = scen_by_id.get(cid) or scen_by_id.get(cid.split("/")[0], {})
        script = sc
        if leg == "e2e" and "/c" in cid and sc:
            script = dict(sc, conns=[sc["conns"][int(cid.split("/c")[1])]])
        lo = max(i + 1, v["line"] - 1 - 30)
        res.report({"property": prop, "leg": leg, "conn": cid, "why": v["why"], "event": v["ev"],
                    "path": hdr.get("path"), "wsmode": hdr.get("wsmode") or sc.get("wsmode"), "tls": hdr.get("tls"),
                    "async": hdr.get("async", sc.get("async")), "end": hdr.get("end"), "big": hdr.get("big"), "chunk": hdr.get("chunk"),
                    "script": script, "trace": [hdr] + events[lo:v["line"] + 5],
                    "replay_key": {"id": cid if leg == "e2e" else sc.get("steps"), "why": v["why"]}})
    if other:
        res.notes.append("rejections of clauses that belong to other properties (reported by their checks): %s" % other)


def run(res, scratch, prop, tier, seed, only=None):
    ov = common.make_overlay(scratch, shim=[])
    binary = common.go_build(scratch, "./cmd/wse2e", overlay=ov, name="wse2e")
    scens = [only] if only else scenarios(prop, tier, seed)
    sp = scratch.fresh("wscen") + ".json"
    with open(sp, "w") as f:
        json.dump(scens, f)
    tp = scratch.fresh("wtrace") + ".ndjson"
    rc, out, dt = common.run([binary, "-trace", tp, "-scenarios", sp], timeout=3000)
    if rc != 0:
        raise Infra("wse2e driver failed rc=%d: %s" % (rc, out[-2000:]))
    n = json.loads(out.strip().splitlines()[-1])["connections"]
    res.coverage["evaluations"] += n
    res.coverage["distinct_nontrivial"] += sum(1 for s in scens for c in s["conns"] if c["writers"] >= 2 and c["nmsg"] >= 3)
    res.coverage["ws_e2e_connections"] = res.coverage.get("ws_e2e_connections", 0) + n
    validate(res, scratch, prop, tp, {s["id"]: s for s in scens}, leg="e2e")
    res.sample({"ws_e2e_config": scens[0]["id"], "conn": scens[0]["conns"][0]})
    return tp


DISPATCH_CFG = """SPECIFICATION Spec
CONSTANTS
  Paths = {"poller", "inline", "transfer"}
  NMsg = 3
  Fix <- %s
INVARIANTS OpenBeforeMsg OneAtATime WireOrder CloseOnceLast
PROPERTY CloseHappens
CHECK_DEADLOCK FALSE
"""
DISPATCH_TRACE_CFG = """SPECIFICATION TraceSpec
CONSTANTS
  Paths = {"poller"}
  NMsg = 64
  Fix = {"gate", "queue"}
POSTCONDITION Post
CHECK_DEADLOCK FALSE
"""


def dispatch_model(res, scratch):
    """WsDispatch.tla: TLC checks the callback-order clauses for the three dispatch structures; with either repair
    switched off it must reproduce the defect (vacuity guard)."""
    r = common.tlc_check(scratch, "WsDispatchMC", cfg_text=DISPATCH_CFG % "FixAll", timeout=600)
    res.add_model("wsdispatch-3paths-3msgs", r)
    for fix in ("FixQueue", "FixGate"):
        rc, out, dt = common.tlc_raw(scratch, "WsDispatchMC", None, cfg_text=DISPATCH_CFG % fix, timeout=600)
        if "is violated" not in out:
            raise Infra("WsDispatch.tla with %s does not reproduce the repaired defect: the model is vacuous" % fix)


def dispatch_conformance(res, scratch, tp):
    """Every callback event of the recorded end-to-end trace has to be producible by WsDispatch.tla (internal steps are
    inferred by TLC).  An unexplained event is drift of the implementation-level model: reported, never a verdict."""
    outp = scratch.fresh("dispout") + ".ndjson"
    # (the streaming connections are left out: the trace spec bounds the number of frames parsed ahead)
    ftp = scratch.fresh("disptrace") + ".ndjson"
    keep = True
    with open(tp) as f, open(ftp, "w") as g:
        for line in f:
            if '"ev":"reset"' in line:
                keep = '"chunk":"stream"' not in line
            if keep:
                g.write(line)
    tp = ftp
    rc, out, dt = common.tlc_raw(scratch, "WsDispatchTrace", None, cfg_text=DISPATCH_TRACE_CFG, workers=1, timeout=1800,
                                 env_extra={"VERIF_TRACE": tp, "VERIF_MONOUT": outp}, heap="8g")
    if not os.path.exists(outp):
        res.notes.append("WsDispatch conformance run did not finish (rc=%d); not a verdict" % rc)
        return
    summ = json.loads(open(outp).readline())
    res.coverage["dispatch_conformance"] = {"events": summ["events"], "explained_up_to": summ["reached"]}
    if summ["reached"] < summ["events"]:
        res.coverage["drift"] += 1
        ev = common.read_ndjson(tp)
        i = min(summ["reached"], len(ev) - 1)
        k = i
        while k >= 0 and ev[k].get("ev") != "reset":
            k -= 1
        res.notes.append("drift: WsDispatch.tla does not explain event %d (%s) of connection %s; the rest of the trace was not "
                         "compared (not a verdict)" % (i + 1, ev[i], ev[k].get("id") if k >= 0 else "?"))
