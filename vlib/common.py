"""Shared machinery for the nbio verification checks (TLC runner, scratch dirs, Go builds,
trace validation, known-findings filter, evidence writer).  Python 3.11, standard library only."""
import hashlib
import json
import os
import re
import shutil
import subprocess
import sys
import tempfile
import time

VERIF = os.path.dirname(os.path.dirname(os.path.abspath(__file__)))
REPO = os.environ.get("VERIF_REPO", "/repo")
SPECS = os.path.join(VERIF, "specs")
HARNESS = os.path.join(VERIF, "harness")
TLA_JAR = "/opt/veriftools/tla/tla2tools.jar:/opt/veriftools/tla/CommunityModules-deps.jar"
NCPU = os.cpu_count() or 4


class Infra(Exception):
    """Infrastructure problem: never a verdict (exit code 2)."""


def log(*a):
    print("[verif]", *a, file=sys.stderr, flush=True)


def go_env():
    env = dict(os.environ)
    env.update({"GOFLAGS": "-mod=mod", "GOPROXY": "off", "GOSUMDB": "off", "GOTOOLCHAIN": "local",
                "CGO_ENABLED": "0"})
    return env


class Scratch:
    """mktemp -d directory, removed on exit."""

    def __init__(self, tag):
        self.dir = tempfile.mkdtemp(prefix="verif_%s_" % tag)
        self.n = 0

    def path(self, *p):
        return os.path.join(self.dir, *p)

    def sub(self, name):
        d = self.path(name)
        os.makedirs(d, exist_ok=True)
        return d

    def fresh(self, stem):
        with _FRESH_LOCK:
            self.n += 1
            n = self.n
        return self.path("%s_%d" % (stem, n))

    def cleanup(self):
        shutil.rmtree(self.dir, ignore_errors=True)


import threading
_FRESH_LOCK = threading.Lock()


def run(cmd, *, cwd=None, env=None, timeout=600, check=False, stdin=None):
    t0 = time.time()
    try:
        p = subprocess.run(cmd, cwd=cwd, env=env, timeout=timeout, stdout=subprocess.PIPE,
                           stderr=subprocess.STDOUT, text=True, input=stdin, errors="replace")
    except subprocess.TimeoutExpired as e:
        out = e.stdout or ""
        if isinstance(out, bytes):
            out = out.decode("utf-8", "replace")
        raise Infra("timeout after %ss: %s\n%s" % (timeout, " ".join(cmd)[:300], out[-2000:]))
    if check and p.returncode != 0:
        raise Infra("command failed rc=%d: %s\n%s" % (p.returncode, " ".join(cmd)[:300], p.stdout[-4000:]))
    return p.returncode, p.stdout, time.time() - t0


# ----------------------------------------------------------------------------------------------
# TLC
# ----------------------------------------------------------------------------------------------

def _spec_copy(scratch):
    d = scratch.path("specs")
    if not os.path.isdir(d):
        shutil.copytree(SPECS, d)
    return d


def tlc_raw(scratch, module, cfg, *, args=(), env_extra=None, timeout=900, workers=None, heap=None,
            cfg_text=None, deque=False):
    """Run TLC on specs/<module>.tla with specs/<cfg> (or cfg_text written to a fresh file)."""
    d = _spec_copy(scratch)
    if cfg_text is not None:
        with _FRESH_LOCK:
            scratch.n += 1
            cfg = "gen_%s_%d.cfg" % (module, scratch.n)
        with open(os.path.join(d, cfg), "w") as f:
            f.write(cfg_text)
    meta = scratch.fresh("meta")
    java = ["java", "-XX:+UseParallelGC", "-Xss64m"]
    if heap:
        java.append("-Xmx%s" % heap)
    if deque:
        java.append("-Dtlc2.tool.queue.IStateQueue=StateDeque")
    cmd = java + ["-cp", TLA_JAR, "tlc2.TLC", "-metadir", meta, "-config", cfg]
    if workers is not None:
        cmd += ["-workers", str(workers)]
    cmd += list(args) + [module]
    env = dict(os.environ)
    env.pop("JAVA_TOOL_OPTIONS", None)
    if env_extra:
        env.update(env_extra)
    rc, out, dt = run(cmd, cwd=d, env=env, timeout=timeout)
    shutil.rmtree(meta, ignore_errors=True)
    return rc, out, dt


_RE_STATES = re.compile(r"(\d+) states generated, (\d+) distinct states found, (\d+) states left on queue")


def tlc_check(scratch, module, cfg=None, *, cfg_text=None, workers="auto", timeout=1800, args=(), heap=None,
              expect_ok=True, coverage=False):
    """Exhaustive model check.  Returns dict(ok, generated, distinct, out, wall, error)."""
    a = list(args)
    if coverage:
        a += ["-coverage", "1"]
    rc, out, dt = tlc_raw(scratch, module, cfg, cfg_text=cfg_text, workers=workers, timeout=timeout, args=a,
                          heap=heap)
    m = None
    for m in _RE_STATES.finditer(out):
        pass
    res = {"rc": rc, "out": out, "wall": dt, "generated": int(m.group(1)) if m else 0,
           "distinct": int(m.group(2)) if m else 0,
           "ok": rc == 0 and "No error has been found" in out}
    if not res["ok"]:
        em = re.search(r"Error: (.*)", out)
        res["error"] = em.group(1) if em else "rc=%d" % rc
        if expect_ok:
            raise Infra("TLC model check of %s/%s failed (this is a model problem, not a verdict): %s\n%s"
                        % (module, cfg, res["error"], out[-3000:]))
    if coverage:
        res["zero_actions"] = coverage_zero(out)
    return res


def coverage_zero(out):
    """Names of top-level actions with zero distinct states in a `-coverage 1` report."""
    zero = []
    for m in re.finditer(r"^<(\w+) line \d+, col \d+ to line \d+, col \d+ of module (\w+)>: (\d+):(\d+)", out, re.M):
        if m.group(3) == "0" and m.group(4) == "0":
            zero.append(m.group(1))
    return sorted(set(zero))


# ---- behaviours out of TLC (-simulate) ---------------------------------------------------------

_RE_HDR = re.compile(r"^STATE_(\d+) == *\\\* <?(.*?)>?$")


def parse_tla_value(s):
    """Parse the subset of TLA+ values TLC prints: ints, strings, booleans, sequences, sets,
    records, functions (a :> b @@ c :> d)."""
    pos = 0
    n = len(s)

    def ws():
        nonlocal pos
        while pos < n and s[pos] in " \t\r\n":
            pos += 1

    def val():
        nonlocal pos
        ws()
        if s.startswith("<<", pos):
            pos += 2
            items = []
            ws()
            if s.startswith(">>", pos):
                pos += 2
                return items
            while True:
                items.append(val())
                ws()
                if s.startswith(">>", pos):
                    pos += 2
                    return items
                assert s[pos] == ",", (s, pos)
                pos += 1
        if s[pos] == "{":
            pos += 1
            items = []
            ws()
            if s[pos] == "}":
                pos += 1
                return {"$set": items}
            while True:
                items.append(val())
                ws()
                if s[pos] == "}":
                    pos += 1
                    return {"$set": items}
                assert s[pos] == ",", (s, pos)
                pos += 1
        if s[pos] == "[":
            pos += 1
            rec = {}
            ws()
            if s[pos] == "]":
                pos += 1
                return rec
            while True:
                ws()
                m = re.compile(r"\w+").match(s, pos)
                k = m.group(0)
                pos = m.end()
                ws()
                assert s.startswith("|->", pos), (s, pos)
                pos += 3
                rec[k] = val()
                ws()
                if s[pos] == "]":
                    pos += 1
                    return rec
                assert s[pos] == ",", (s, pos)
                pos += 1
        if s[pos] == "(":
            # function printed as (a :> b @@ c :> d)
            pos += 1
            fn = []
            while True:
                k = val()
                ws()
                assert s.startswith(":>", pos), (s, pos)
                pos += 2
                v = val()
                fn.append([k, v])
                ws()
                if s[pos] == ")":
                    pos += 1
                    break
                assert s.startswith("@@", pos), (s, pos)
                pos += 2
            return {"$fn": fn}
        if s[pos] == '"':
            e = pos + 1
            while s[e] != '"':
                if s[e] == "\\":
                    e += 1
                e += 1
            r = s[pos + 1:e]
            pos = e + 1
            if "\\" in r:
                r = r.replace("\\t", "\t").replace("\\n", "\n").replace('\\"', '"').replace("\\\\", "\\")
            return r
        m = re.compile(r"-?\d+").match(s, pos)
        if m:
            pos = m.end()
            return int(m.group(0))
        m = re.compile(r"\w+").match(s, pos)
        if m:
            pos = m.end()
            w = m.group(0)
            return True if w == "TRUE" else False if w == "FALSE" else w
        raise ValueError("cannot parse TLA value at %d: %r" % (pos, s[pos:pos + 40]))

    v = val()
    return v


def parse_sim_file(path):
    """Parse one behaviour file written by `tlc -simulate file=...`.  Returns a list of
    (action_header, {var: value}) with action_header like 'SubmitCS(s1) line 31, ...' or 'Init...'."""
    steps = []
    cur = None
    buf = []

    def flush():
        if cur is None:
            return
        txt = "\n".join(buf)
        vars_ = {}
        # conjuncts: /\ name = value  (value may span lines)
        parts = re.split(r"^/\\ ", txt, flags=re.M)
        for p in parts:
            p = p.strip()
            if not p:
                continue
            k, _, v = p.partition(" = ")
            vars_[k.strip()] = parse_tla_value(v.strip())
        steps.append((cur, vars_))

    pending_hdr = None
    with open(path) as f:
        for line in f:
            line = line.rstrip("\n")
            m = _RE_HDR.match(line)
            if m:
                flush()
                cur = m.group(2)
                buf = []
                continue
            mc = re.match(r"^\\\* <(.*)>\s*$", line)
            if mc:
                pending_hdr = mc.group(1)
                continue
            if re.match(r"^STATE_\d+ ==\s*$", line):
                flush()
                cur = pending_hdr or "?"
                buf = []
                continue
            if line.startswith("====") or line.startswith("----") or line.startswith("EXTENDS") or not line.strip():
                continue
            if cur is not None:
                buf.append(line)
    flush()
    return steps


def tlc_simulate(scratch, module, cfg=None, *, cfg_text=None, num=100, depth=50, seed=1, timeout=600, workers=1):
    """Random behaviours of a spec.  Returns list of behaviours; each is a list of (action, state)."""
    outdir = scratch.fresh("sim")
    os.makedirs(outdir)
    stem = os.path.join(outdir, "b")
    rc, out, dt = tlc_raw(scratch, module, cfg, cfg_text=cfg_text, workers=workers, timeout=timeout,
                          args=["-simulate", "file=%s,num=%d" % (stem, num), "-depth", str(depth), "-seed", str(seed)])
    files = sorted(os.listdir(outdir))
    if not files:
        raise Infra("tlc -simulate produced no behaviours for %s: %s" % (module, out[-2000:]))
    behs = []
    for fn in files:
        behs.append(parse_sim_file(os.path.join(outdir, fn)))
    shutil.rmtree(outdir, ignore_errors=True)
    return behs, out


def action_name_args(hdr):
    """'SubmitCS("s1", 2) line 12, col 3 to ...' -> ('SubmitCS', ['s1', 2])"""
    m = re.match(r"(\w+)(\((.*?)\))? line \d+", hdr)
    if not m:
        m2 = re.match(r"(\w+)", hdr)
        return (m2.group(1) if m2 else hdr), []
    name = m.group(1)
    args = []
    if m.group(3) is not None and m.group(3).strip():
        args = parse_tla_value("<<" + m.group(3) + ">>")
    return name, args


# ---- trace validation (monitor specs are total: they never block, they record violations) -------

def library_crash(out):
    """If a driver died from a Go panic / fatal error whose crashing goroutine was executing library code (the innermost
    frame outside the Go runtime belongs to github.com/lesismal/nbio and not to the verification shims), returns a one-line
    description; else None.  A panic that escapes from a library goroutine kills the user's process."""
    m = re.search(r"^(panic: .*|fatal error: .*)$", out, re.M)
    if not m:
        return None
    tail = out[m.start():]
    g = re.search(r"^goroutine \d+[^\n]*\[running\]:\n((?:.*\n)+?)(?:\n|\Z)", tail, re.M)
    block = g.group(1) if g else tail[:4000]
    for line in block.splitlines():
        line = line.strip()
        if not line or line.startswith("/") or line.startswith("panic(") or line.startswith("runtime.") or line.startswith("sync.") \
                or line.startswith("internal/") or line.startswith("created by"):
            continue
        if line.startswith("github.com/lesismal/nbio") and "/zzverif/" not in line:
            return "%s (in %s)" % (m.group(1)[:200], line.split("(")[0])
        return None
    return None


CHUNK_EVENTS = 250000


def tlc_validate(scratch, module, trace_path, *, cfg=None, timeout=1800, extra_env=None):
    """Validate an ndjson trace against specs/<module>.tla (a *Trace module built on TraceIO).
    Returns (violations, stats).  A violation is a dict(line=<1-based line in trace>, why=..., ...).
    Scenarios are independent (every monitor starts afresh at a `reset` event), so a long trace is cut at reset
    lines into chunks that are validated by separate TLC runs, four at a time; line numbers are mapped back."""
    bounds = [0]
    n = 0
    last_reset = 0
    with open(trace_path) as f:
        for i, line in enumerate(f):
            n += 1
            if '"ev":"reset"' in line or '"ev": "reset"' in line:
                if i - bounds[-1] >= CHUNK_EVENTS:
                    bounds.append(i)
    if len(bounds) == 1:
        return _tlc_validate_one(scratch, module, trace_path, cfg=cfg, timeout=timeout, extra_env=extra_env)
    bounds.append(n)
    parts = []
    with open(trace_path) as f:
        k = 0
        out = None
        for i, line in enumerate(f):
            if k < len(bounds) - 1 and i == bounds[k]:
                if out:
                    out.close()
                pth = "%s.part%d" % (trace_path, k)
                parts.append((pth, bounds[k]))
                out = open(pth, "w")
                k += 1
            out.write(line)
        if out:
            out.close()
    import concurrent.futures
    viol, stats = [], {"wall": 0.0, "states": 0, "events": 0, "scenarios": 0, "rejected": 0, "chunks": len(parts)}
    with concurrent.futures.ThreadPoolExecutor(max_workers=4) as ex:
        futs = [(off, ex.submit(_tlc_validate_one, scratch, module, pth, cfg=cfg, timeout=timeout, extra_env=extra_env))
                for (pth, off) in parts]
        for off, fu in futs:
            v, st = fu.result()
            for x in v:
                x["line"] += off
            viol += v
            for key in ("wall", "states", "events", "scenarios", "rejected"):
                stats[key] = stats.get(key, 0) + (st.get(key) or 0)
    for pth, _ in parts:
        try:
            os.remove(pth)
        except OSError:
            pass
    stats["summary"] = True
    return viol, stats


def _tlc_validate_one(scratch, module, trace_path, *, cfg=None, timeout=1800, extra_env=None):
    cfg = cfg or (module + ".cfg")
    outp = scratch.fresh("monout") + ".ndjson"
    env = {"VERIF_TRACE": trace_path, "VERIF_MONOUT": outp}
    if extra_env:
        env.update(extra_env)
    rc, out, dt = tlc_raw(scratch, module, cfg, workers=1, timeout=timeout, env_extra=env, heap="8g")
    if not os.path.exists(outp):
        raise Infra("trace validation by %s did not reach the end of the trace (rc=%d):\n%s" % (module, rc, out[-3000:]))
    viol = []
    with open(outp) as f:
        for line in f:
            line = line.strip()
            if line:
                viol.append(json.loads(line))
    m = None
    for m in _RE_STATES.finditer(out):
        pass
    stats = {"wall": dt, "states": int(m.group(2)) if m else 0}
    # first line of the monitor output is a summary record
    summary = viol[0] if viol and viol[0].get("summary") else None
    if summary:
        viol = viol[1:]
        stats.update(summary)
    return viol, stats


# ----------------------------------------------------------------------------------------------
# Go builds
# ----------------------------------------------------------------------------------------------

def build_instrument(scratch):
    """Build tools/instrument (cached by the go build cache)."""
    out = os.path.join(VERIF, "bin", "instrument")
    os.makedirs(os.path.dirname(out), exist_ok=True)
    rc, o, _ = run(["go", "build", "-o", out, "."], cwd=os.path.join(VERIF, "tools", "instrument"), env=go_env(),
                   timeout=600)
    if rc != 0:
        raise Infra("building tools/instrument failed:\n" + o[-3000:])
    return out


def make_overlay(scratch, *, shim=(), access=True):
    """Generate the build overlay from /repo's current working tree.
    shim: subset of {'sync','syscall','time','atomic','go'} to rewrite in the instrumented packages."""
    tool = build_instrument(scratch)
    ovdir = scratch.fresh("overlay")
    os.makedirs(ovdir)
    cmd = [tool, "-repo", REPO, "-verif", VERIF, "-out", ovdir, "-shim", ",".join(shim)]
    if not access:
        cmd.append("-noaccess")
    rc, o, _ = run(cmd, env=go_env(), timeout=300)
    if rc != 0:
        raise Infra("instrumenting /repo failed (cannot build the instrumented tree; not a verdict):\n" + o[-3000:])
    return os.path.join(ovdir, "overlay.json")


def sync_gosum():
    src = os.path.join(REPO, "go.sum")
    dst = os.path.join(HARNESS, "go.sum")
    try:
        a = open(src, "rb").read()
        b = open(dst, "rb").read() if os.path.exists(dst) else None
        if a != b:
            with open(dst, "wb") as f:
                f.write(a)
    except OSError:
        pass


def go_build(scratch, pkg, *, overlay=None, name=None, tags="verif", timeout=900, race=False):
    sync_gosum()
    out = scratch.path("bin_" + (name or pkg.strip("./").replace("/", "_")))
    cmd = ["go", "build", "-tags", tags, "-o", out]
    if overlay:
        cmd += ["-overlay", overlay]
    if race:
        cmd.append("-race")
    cmd.append(pkg)
    env = go_env()
    if race:
        env["CGO_ENABLED"] = "1"
    rc, o, dt = run(cmd, cwd=HARNESS, env=env, timeout=timeout)
    if rc != 0:
        raise Infra("go build %s failed (the tree under /repo does not build with the harness; not a verdict):\n%s"
                    % (pkg, o[-4000:]))
    return out


# ----------------------------------------------------------------------------------------------
# Known findings
# ----------------------------------------------------------------------------------------------

def load_findings():
    p = os.path.join(VERIF, "known_findings.json")
    if not os.path.exists(p):
        return {"findings": [], "fixed": []}
    with open(p) as f:
        return json.load(f)


def _match_one(pat, val):
    if isinstance(pat, dict):
        if "re" in pat:
            return val is not None and re.search(pat["re"], str(val)) is not None
        if "in" in pat:
            return val in pat["in"]
        if "lt" in pat:
            return isinstance(val, (int, float)) and val < pat["lt"]
        if "ge" in pat:
            return isinstance(val, (int, float)) and val >= pat["ge"]
        if "absent" in pat:
            return val is None
    return pat == val


def match_finding(prop, viol, findings=None):
    """viol: flat dict describing a violation (scenario + first rejected event).  Returns the id of
    the listed finding that explains it, or None."""
    findings = findings if findings is not None else load_findings()
    for f in findings.get("findings", []):
        if f.get("property") != prop:
            continue
        if all(_match_one(p, viol.get(k)) for k, p in f.get("match", {}).items()):
            return f
    return None


# ----------------------------------------------------------------------------------------------
# Result / evidence
# ----------------------------------------------------------------------------------------------

class Result:
    def __init__(self, prop, tier, seed):
        self.prop = prop
        self.tier = tier
        self.seed = seed
        self.t0 = time.time()
        self.coverage = {"states": 0, "transitions": 0, "traces_validated_against_impl": 0, "samples": [],
                         "evaluations": 0, "distinct_nontrivial": 0, "rule": "", "exhaustive": False,
                         "drift": 0, "known_findings_hit": {}, "model_runs": []}
        self.assumptions = []
        self.violations = []     # dicts (unexplained)
        self.known = {}          # finding id -> count
        self.known_desc = {}
        self.notes = []

    def add_model(self, name, res):
        self.coverage["states"] += res["distinct"]
        self.coverage["transitions"] += res["generated"]
        self.coverage["model_runs"].append({"config": name, "distinct_states": res["distinct"],
                                            "states_generated": res["generated"], "wall_s": round(res["wall"], 1)})

    def sample(self, s, cap=6):
        if len(self.coverage["samples"]) < cap:
            self.coverage["samples"].append(s)

    def report(self, viol):
        """viol: dict with at least 'why'; classified against known findings."""
        f = match_finding(self.prop, viol)
        if f is not None:
            self.known[f["id"]] = self.known.get(f["id"], 0) + 1
            self.known_desc[f["id"]] = f["desc"]
            return False
        self.violations.append(viol)
        return True

    def finish(self):
        wall = time.time() - self.t0
        self.coverage["known_findings_hit"] = dict(self.known)
        ev = {"property_id": self.prop, "tier": self.tier, "seed": self.seed, "level": "model_checking",
              "coverage": self.coverage, "assumptions": self.assumptions, "wall_s": round(wall, 2),
              "violations": len(self.violations)}
        if self.notes:
            ev["coverage"]["notes"] = self.notes
        os.makedirs(os.path.join(VERIF, "evidence"), exist_ok=True)
        with open(os.path.join(VERIF, "evidence", self.prop + ".json"), "w") as f:
            json.dump(ev, f, indent=1, sort_keys=True, default=str)
            f.write("\n")
        for fid, cnt in sorted(self.known.items()):
            print("KNOWN-FINDING: property=%s %s [%s, %d occurrence(s) in this run]"
                  % (self.prop, self.known_desc[fid], fid, cnt))
        if self.violations:
            os.makedirs(os.path.join(VERIF, "replays"), exist_ok=True)
            classes = {}
            for v in self.violations:
                k = " | ".join(str(v.get(f)) for f in ("why", "mode", "transport", "origin", "op", "leg", "executor", "mclass", "side", "framing", "proto", "variant", "has_rf", "has_flush", "has_big", "trailer", "fail", "wsmode", "role", "compress", "lenclass", "opclass", "shape", "async", "exec", "pending", "iomod", "tls", "slowread", "lastconn", "lastver", "bigresp", "path", "end") if v.get(f) is not None)
                classes[k] = classes.get(k, 0) + 1
            for k, n in sorted(classes.items(), key=lambda kv: -kv[1])[:30]:
                print("  violation class x%d: %s" % (n, k))
            # write replays for a spread of classes, not only the first ones
            bycls = {}
            for v in self.violations:
                k = " | ".join(str(v.get(f)) for f in ("why", "mode", "transport", "origin", "op", "leg", "executor", "mclass", "side", "framing", "proto", "variant", "has_rf", "has_flush", "has_big", "trailer", "fail", "wsmode", "role", "compress", "lenclass", "opclass", "shape", "async", "exec", "pending", "iomod", "tls", "slowread", "lastconn", "lastver", "bigresp", "path", "end") if v.get(f) is not None)
                bycls.setdefault(k, []).append(v)
            spread = []
            i = 0
            while len(spread) < 12 and any(bycls.values()):
                for k in sorted(bycls):
                    if bycls[k]:
                        spread.append(bycls[k].pop(0))
                i += 1
            self.violations_all = len(self.violations)
            self.violations = spread
            seen = set()
            for v in self.violations:
                key = hashlib.sha1(json.dumps(v.get("replay_key", v), sort_keys=True, default=str).encode()).hexdigest()[:12]
                if key in seen:
                    continue
                seen.add(key)
                if len(seen) > 10:
                    break
                path = os.path.join(VERIF, "replays", "%s_%s.json" % (self.prop, key))
                with open(path, "w") as f:
                    json.dump(v, f, indent=1, sort_keys=True, default=str)
                print("VIOLATION property=%s replay=%s" % (self.prop, path))
                print("  why: %s" % str(v.get("why"))[:400])
            return 1
        return 0


def write_ndjson(path, events):
    with open(path, "w") as f:
        for e in events:
            f.write(json.dumps(e, separators=(",", ":"), sort_keys=True))
            f.write("\n")


def read_ndjson(path):
    out = []
    with open(path) as f:
        for line in f:
            line = line.strip()
            if line:
                out.append(json.loads(line))
    return out
