"""State graphs dumped by TLC (-dump dot,actionlabels): parsing and path generation."""
import collections
import os
import random
import re

from .common import Infra, parse_tla_value, tlc_raw, _RE_STATES

_NODE = re.compile(r'^(-?\d+) \[label="((?:[^"\\]|\\.)*)"')
_EDGE = re.compile(r'^(-?\d+) -> (-?\d+) \[label="((?:[^"\\]|\\.)*)"')


def _unesc(s):
    return s.replace('\\n', '\n').replace('\\"', '"').replace('\\\\', '\\')


def parse_state(label):
    txt = _unesc(label)
    st = {}
    for part in re.split(r"^/\\ ", txt, flags=re.M):
        part = part.strip()
        if not part:
            continue
        k, _, v = part.partition(" = ")
        st[k.strip()] = parse_tla_value(v.strip())
    return st


class Graph:
    def __init__(self):
        self.state = {}                 # node -> raw label (parsed lazily)
        self._parsed = {}
        self.out = collections.defaultdict(list)   # node -> [(label, dst)]
        self.init = []
        self.nedges = 0

    def st(self, n):
        if n not in self._parsed:
            self._parsed[n] = parse_state(self.state[n])
        return self._parsed[n]

    @staticmethod
    def load(path):
        g = Graph()
        with open(path) as f:
            for line in f:
                m = _EDGE.match(line)
                if m:
                    a, b, lab = m.group(1), m.group(2), _unesc(m.group(3))
                    if a == b and False:
                        continue
                    g.out[a].append((lab, b))
                    g.nedges += 1
                    continue
                m = _NODE.match(line)
                if m:
                    n = m.group(1)
                    if n not in g.state:
                        g.state[n] = m.group(2)
                        if "style = filled" in line:
                            g.init.append(n)
        for n in g.out:
            g.out[n].sort()
        return g

    # ---- paths: lists of (label, dst) starting from an initial node ----
    def all_paths(self, cap=20000, seed=0, max_len=200):
        """All maximal simple paths (DFS); if more than cap, a seeded random sample of cap of them
        (by randomised DFS with early cut) -- returns (paths, complete)."""
        paths = []
        complete = True
        rnd = random.Random(seed)
        for i0 in self.init:
            stack = [(i0, [], {i0})]
            while stack:
                n, path, seen = stack.pop()
                succ = [(l, d) for (l, d) in self.out.get(n, []) if d not in seen and d != n]
                if not succ or len(path) >= max_len:
                    paths.append((i0, path))
                    if len(paths) >= cap:
                        complete = not stack
                        return paths, complete
                    continue
                rnd.shuffle(succ)
                for l, d in succ:
                    stack.append((d, path + [(l, d)], seen | {d}))
        return paths, complete

    def count_paths(self, limit=10**7):
        """Number of maximal paths if the graph is a DAG (memoised), else None."""
        memo = {}
        onstack = set()

        def rec(n):
            if n in memo:
                return memo[n]
            if n in onstack:
                raise ValueError("cycle")
            onstack.add(n)
            succ = [d for (_, d) in self.out.get(n, []) if d != n]
            c = 1 if not succ else sum(rec(d) for d in succ)
            onstack.discard(n)
            memo[n] = min(c, limit)
            return memo[n]
        import sys
        sys.setrecursionlimit(100000)
        try:
            return sum(rec(i) for i in self.init)
        except ValueError:
            return None

    def shortest_from_init(self):
        dist = {}
        prev = {}
        dq = collections.deque()
        for i in self.init:
            dist[i] = 0
            dq.append(i)
        while dq:
            n = dq.popleft()
            for l, d in self.out.get(n, []):
                if d not in dist:
                    dist[d] = dist[n] + 1
                    prev[d] = (n, l)
                    dq.append(d)
        return dist, prev

    def path_to(self, prev, n):
        p = []
        while n in prev:
            a, l = prev[n]
            p.append((l, n))
            n = a
        p.reverse()
        return n, p

    def edge_tour(self, seed=0, max_len=400):
        """Paths from init that together cover every edge."""
        rnd = random.Random(seed)
        _, prev = self.shortest_from_init()
        uncovered = set()
        for a in self.out:
            for (l, b) in self.out[a]:
                uncovered.add((a, l, b))
        paths = []
        order = sorted(uncovered)
        for e in order:
            if e not in uncovered:
                continue
            a, l, b = e
            i0, p = self.path_to(prev, a)
            cur = a
            # mark prefix edges
            x = i0
            for (pl, pd) in p:
                uncovered.discard((x, pl, pd))
                x = pd
            path = list(p)
            nxt = (l, b)
            while nxt is not None and len(path) < max_len:
                uncovered.discard((cur, nxt[0], nxt[1]))
                path.append(nxt)
                cur = nxt[1]
                cand = [(cl, cd) for (cl, cd) in self.out.get(cur, []) if (cur, cl, cd) in uncovered]
                if cand:
                    nxt = rnd.choice(cand)
                else:
                    succ = [(cl, cd) for (cl, cd) in self.out.get(cur, []) if cd != cur]
                    nxt = rnd.choice(succ) if succ else None
                    # only continue through covered edges until terminal (keeps scripts complete)
            paths.append((i0, path))
        return paths

    def random_walks(self, n, seed=0, max_len=400):
        rnd = random.Random(seed)
        paths = []
        for _ in range(n):
            cur = rnd.choice(self.init)
            i0 = cur
            path = []
            while len(path) < max_len:
                succ = [(l, d) for (l, d) in self.out.get(cur, []) if d != cur]
                if not succ:
                    break
                l, d = rnd.choice(succ)
                path.append((l, d))
                cur = d
            paths.append((i0, path))
        return paths


def tlc_graph(scratch, module, cfg_text, *, timeout=900, workers=1):
    """Exhaustive check + graph dump.  Returns (Graph, result dict)."""
    dot = scratch.fresh("graph") + ".dot"
    rc, out, dt = tlc_raw(scratch, module, None, cfg_text=cfg_text, workers=workers, timeout=timeout,
                          args=["-dump", "dot,actionlabels", dot])
    m = None
    for m in _RE_STATES.finditer(out):
        pass
    ok = rc == 0 and "No error has been found" in out
    if not ok:
        raise Infra("TLC model check of %s failed (model problem, not a verdict):\n%s" % (module, out[-3000:]))
    g = Graph.load(dot)
    os.unlink(dot)
    res = {"ok": ok, "generated": int(m.group(1)) if m else 0, "distinct": int(m.group(2)) if m else 0, "wall": dt,
           "out": out}
    return g, res


def label_name_args(label):
    """'Step("s1")' -> ('Step', ['s1']) ; 'CloseCS' -> ('CloseCS', [])"""
    m = re.match(r"(\w+)(?:\((.*)\))?$", label.strip())
    if not m:
        return label, []
    args = []
    if m.group(2) is not None and m.group(2).strip():
        args = parse_tla_value("<<" + m.group(2) + ">>")
    return m.group(1), args
