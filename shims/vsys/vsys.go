// Package vsys replaces "syscall" in the instrumented library packages.  Descriptors >= SimBase are
// served by an in-process MODEL KERNEL (stream sockets with byte-exact send buffers, epoll with
// level / edge / one-shot semantics, eventfd); every operation on them is a yield point of the
// cooperative scheduler (package vrt).  All other descriptors, and every identifier not defined
// here, pass through to package syscall (see the generated zz_passthrough.go).
//
// The model kernel is deliberately small; its semantics are mirrored one-to-one by the kernel part
// of specs/NbConn.tla:
//
//	write(fd, p)     takes k = min(len(p), room) bytes; k = 0 -> EAGAIN; a short count or EAGAIN
//	                 sets the socket's NOSPACE flag
//	peer read        frees room; if NOSPACE was set it is cleared and an EPOLLOUT wake-up is raised
//	epoll            an item is put on the ready list by (a) EPOLL_CTL_ADD/MOD when it is ready for
//	                 its new interest set, (b) a wake-up (data arrival, write space, hang-up).
//	                 epoll_wait reports, for every item on the list, the CURRENT readiness masked by
//	                 the interest set (nothing if that is empty); edge-triggered and one-shot items
//	                 leave the list when reported, one-shot items are disabled until the next MOD.
//	                 Polling an item that wants EPOLLOUT while the socket is full sets NOSPACE.
package vsys

import (
	"sync"
	"syscall"
	"unsafe"

	"github.com/lesismal/nbio/zzverif/vrt"
)

// SimBase is the first simulated descriptor number.
const SimBase = 15000

const (
	epollET      = 1 << 31
	epollOneshot = 1 << 30
)

type sock struct {
	fd       int
	sndCap   int
	kbuf     int    // bytes accepted and not yet read by the peer
	inq      []byte // bytes sent by the peer and not yet read
	nospace  bool
	peerShut bool // peer closed its end
	closed   bool
	errNext  []syscall.Errno // injected results for the next write-type syscalls
	rerrNext []syscall.Errno // injected results for the next read syscalls
	nWrite   int             // write-type syscalls seen
	nRead    int
}

type reg struct {
	events   uint32
	disabled bool
}

type epoll struct {
	fd    int
	regs  map[int]*reg
	ready []int
}

type eventfd struct {
	fd  int
	cnt uint64
}

// Kernel is the model kernel state.  Exactly one library thread runs at a time under the
// cooperative scheduler, but the mutex makes the kernel safe for unmanaged goroutines too.
type Kernel struct {
	mu      sync.Mutex
	cond    *sync.Cond
	on      bool
	next    int
	socks   map[int]*sock
	epolls  map[int]*epoll
	evfds   map[int]*eventfd
	closes  map[int]int // close(fd) count per simulated fd
	badSys  []string    // syscalls on closed descriptors
	OnTake  func(fd int, p []byte, kind string)
	OnSys   func(name string, fd int, n int, err syscall.Errno)
	NoYield bool
}

var K = newKernel()

func newKernel() *Kernel {
	k := &Kernel{next: SimBase, socks: map[int]*sock{}, epolls: map[int]*epoll{}, evfds: map[int]*eventfd{}, closes: map[int]int{}}
	k.cond = sync.NewCond(&k.mu)
	return k
}

// Reset drops all simulated objects and switches simulation of NEW epoll/eventfd objects on/off.
func Reset(on bool) {
	K.mu.Lock()
	K.on = on
	K.next = SimBase
	K.socks = map[int]*sock{}
	K.epolls = map[int]*epoll{}
	K.evfds = map[int]*eventfd{}
	K.closes = map[int]int{}
	K.badSys = nil
	K.mu.Unlock()
}

func isSim(fd int) bool { return fd >= SimBase }

func yield(tag string, fd int, enabled func() bool) {
	if K.NoYield {
		return
	}
	if t := vrt.Cur(); t != nil {
		t.Yield(vrt.Op{Kind: "sys", Tag: tag, Arg: fd, Enabled: enabled})
	}
}

// LazyRet makes the return of every simulated syscall a transparent yield point for the calling
// managed thread: the code that follows the syscall is delayed until the thread is next stepped, so
// that other threads can observe the window between a kernel effect and the user-space bookkeeping.
var LazyRet bool

func after() {
	if LazyRet && !K.NoYield {
		if t := vrt.Cur(); t != nil {
			t.Yield(vrt.Op{Kind: "sysret", Transparent: true})
		}
	}
}

// ---- driver-side API -------------------------------------------------------------------------

// NewSock creates a simulated connected stream socket and returns its descriptor.
func NewSock(sndCap int) int {
	K.mu.Lock()
	defer K.mu.Unlock()
	fd := K.next
	K.next++
	K.socks[fd] = &sock{fd: fd, sndCap: sndCap}
	return fd
}

// PeerRead lets the peer consume up to m bytes; returns the number consumed.
func PeerRead(fd, m int) int {
	K.mu.Lock()
	defer K.mu.Unlock()
	s := K.socks[fd]
	if s == nil || s.kbuf == 0 {
		return 0
	}
	if m > s.kbuf {
		m = s.kbuf
	}
	s.kbuf -= m
	if s.nospace && m > 0 {
		s.nospace = false
		K.wake(fd, syscall.EPOLLOUT)
	}
	return m
}

// PeerSend makes data available for reading on fd.
func PeerSend(fd int, data []byte) {
	K.mu.Lock()
	defer K.mu.Unlock()
	s := K.socks[fd]
	if s == nil || s.closed {
		return
	}
	s.inq = append(s.inq, data...)
	K.wake(fd, syscall.EPOLLIN)
}

// PeerClose closes the peer's end (EOF + RDHUP/HUP on fd).
func PeerClose(fd int) {
	K.mu.Lock()
	defer K.mu.Unlock()
	s := K.socks[fd]
	if s == nil {
		return
	}
	s.peerShut = true
	K.wake(fd, syscall.EPOLLIN|syscall.EPOLLRDHUP|syscall.EPOLLHUP)
}

// InjectWrite makes the next write-type syscall on fd fail with errno (queued FIFO).
func InjectWrite(fd int, errno syscall.Errno) {
	K.mu.Lock()
	defer K.mu.Unlock()
	if s := K.socks[fd]; s != nil {
		s.errNext = append(s.errNext, errno)
	}
}

// InjectRead makes the next read syscall on fd fail with errno.
func InjectRead(fd int, errno syscall.Errno) {
	K.mu.Lock()
	defer K.mu.Unlock()
	if s := K.socks[fd]; s != nil {
		s.rerrNext = append(s.rerrNext, errno)
	}
}

// SockState is a snapshot for conformance checks.
type SockState struct {
	Kbuf, Room, Inq int
	Nospace, Closed bool
	Closes          int
	Reg             bool
	Events          uint32
	Disabled        bool
	Ready           bool
	NWrite, NRead   int
}

// State returns the kernel-side state of a simulated socket (first epoll that knows it).
func State(fd int) SockState {
	K.mu.Lock()
	defer K.mu.Unlock()
	var st SockState
	s := K.socks[fd]
	if s == nil {
		st.Closed = true
		st.Closes = K.closes[fd]
		return st
	}
	st = SockState{Kbuf: s.kbuf, Room: s.sndCap - s.kbuf, Inq: len(s.inq), Nospace: s.nospace, Closed: s.closed,
		Closes: K.closes[fd], NWrite: s.nWrite, NRead: s.nRead}
	for _, ep := range K.epolls {
		if r := ep.regs[fd]; r != nil {
			st.Reg, st.Events, st.Disabled = true, r.events, r.disabled
			for _, x := range ep.ready {
				if x == fd {
					st.Ready = true
				}
			}
		}
	}
	return st
}

// BadSyscalls lists syscalls issued on closed simulated descriptors.
func BadSyscalls() []string {
	K.mu.Lock()
	defer K.mu.Unlock()
	return append([]string(nil), K.badSys...)
}

// ---- readiness ---------------------------------------------------------------------------------

func (s *sock) level() uint32 {
	var m uint32
	if len(s.inq) > 0 || s.peerShut {
		m |= syscall.EPOLLIN
	}
	if s.sndCap-s.kbuf > 0 {
		m |= syscall.EPOLLOUT
	}
	if s.peerShut {
		m |= syscall.EPOLLRDHUP | syscall.EPOLLHUP
	}
	return m
}

func (k *Kernel) levelOf(fd int, interest uint32) uint32 {
	if s := k.socks[fd]; s != nil {
		m := s.level()
		if interest&syscall.EPOLLOUT != 0 && m&syscall.EPOLLOUT == 0 {
			s.nospace = true // polling a full socket for writability arms the write-space wake-up
		}
		return m & (interest | syscall.EPOLLERR | syscall.EPOLLHUP)
	}
	if e := k.evfds[fd]; e != nil {
		if e.cnt > 0 {
			return syscall.EPOLLIN & interest
		}
	}
	return 0
}

func (ep *epoll) enqueue(fd int) {
	for _, x := range ep.ready {
		if x == fd {
			return
		}
	}
	ep.ready = append(ep.ready, fd)
}

func (k *Kernel) wake(fd int, bits uint32) {
	for _, ep := range k.epolls {
		r := ep.regs[fd]
		if r == nil || r.disabled {
			continue
		}
		if bits&(r.events|syscall.EPOLLERR|syscall.EPOLLHUP) != 0 {
			ep.enqueue(fd)
		}
	}
	k.cond.Broadcast()
}

// levelPure is levelOf without the NOSPACE side effect (used for enabledness checks only).
func (k *Kernel) levelPure(fd int, interest uint32) uint32 {
	if s := k.socks[fd]; s != nil {
		return s.level() & (interest | syscall.EPOLLERR | syscall.EPOLLHUP)
	}
	if e := k.evfds[fd]; e != nil && e.cnt > 0 {
		return syscall.EPOLLIN & interest
	}
	return 0
}

// hasReady reports whether epoll_wait would return at least one event now (side-effect free).
func (k *Kernel) hasReady(ep *epoll) bool {
	for _, fd := range ep.ready {
		r := ep.regs[fd]
		if r == nil || r.disabled {
			continue
		}
		if k.levelPure(fd, r.events) != 0 {
			return true
		}
	}
	return false
}

// ---- syscalls ----------------------------------------------------------------------------------

func (k *Kernel) note(name string, fd, n int, err syscall.Errno) {
	if k.OnSys != nil {
		k.OnSys(name, fd, n, err)
	}
}

func (k *Kernel) takeLocked(s *sock, p []byte, kind string) (int, error) {
	s.nWrite++
	if len(s.errNext) > 0 {
		e := s.errNext[0]
		s.errNext = s.errNext[1:]
		k.note(kind, s.fd, -1, e)
		return -1, e
	}
	if s.peerShut {
		k.note(kind, s.fd, -1, syscall.EPIPE)
		return -1, syscall.EPIPE
	}
	room := s.sndCap - s.kbuf
	n := len(p)
	if n > room {
		n = room
	}
	if n < len(p) {
		s.nospace = true
	}
	if n == 0 && len(p) > 0 {
		k.note(kind, s.fd, -1, syscall.EAGAIN)
		return -1, syscall.EAGAIN
	}
	s.kbuf += n
	if k.OnTake != nil && n > 0 {
		k.OnTake(s.fd, p[:n], kind)
	}
	k.note(kind, s.fd, n, 0)
	return n, nil
}

func (k *Kernel) deadFd(name string, fd int) {
	k.badSys = append(k.badSys, name)
	k.note(name, fd, -1, syscall.EBADF)
}

// Write is syscall.Write.
func Write(fd int, p []byte) (int, error) {
	n, err := writeImpl(fd, p)
	if isSim(fd) {
		after()
	}
	return n, err
}

// RecSys, if set, is called for write-type syscalls on REAL descriptors (record mode).
var RecSys func(name string, fd int, n int, err error)

func writeImpl(fd int, p []byte) (int, error) {
	if !isSim(fd) {
		n, err := syscall.Write(fd, p)
		if RecSys != nil {
			RecSys("write", fd, n, err)
		}
		return n, err
	}
	yield("write", fd, nil)
	K.mu.Lock()
	defer K.mu.Unlock()
	if e := K.evfds[fd]; e != nil {
		if len(p) >= 8 {
			e.cnt += *(*uint64)(unsafe.Pointer(&p[0]))
		}
		K.wake(fd, syscall.EPOLLIN)
		return 8, nil
	}
	s := K.socks[fd]
	if s == nil || s.closed {
		K.deadFd("write", fd)
		return -1, syscall.EBADF
	}
	return K.takeLocked(s, p, "write")
}

// Read is syscall.Read.
func Read(fd int, p []byte) (int, error) {
	n, err := readImpl(fd, p)
	if isSim(fd) {
		after()
	}
	return n, err
}

func readImpl(fd int, p []byte) (int, error) {
	if !isSim(fd) {
		return syscall.Read(fd, p)
	}
	yield("read", fd, nil)
	K.mu.Lock()
	defer K.mu.Unlock()
	s := K.socks[fd]
	if s == nil || s.closed {
		K.deadFd("read", fd)
		return -1, syscall.EBADF
	}
	s.nRead++
	if len(s.rerrNext) > 0 {
		e := s.rerrNext[0]
		s.rerrNext = s.rerrNext[1:]
		K.note("read", fd, -1, e)
		return -1, e
	}
	if len(s.inq) == 0 {
		if s.peerShut {
			K.note("read", fd, 0, 0)
			return 0, nil
		}
		K.note("read", fd, -1, syscall.EAGAIN)
		return -1, syscall.EAGAIN
	}
	n := copy(p, s.inq)
	s.inq = s.inq[n:]
	K.note("read", fd, n, 0)
	return n, nil
}

// Close is syscall.Close.
func Close(fd int) error {
	if !isSim(fd) {
		return syscall.Close(fd)
	}
	yield("close", fd, nil)
	K.mu.Lock()
	defer K.mu.Unlock()
	K.closes[fd]++
	if s := K.socks[fd]; s != nil {
		if s.closed {
			K.deadFd("close", fd)
			return syscall.EBADF
		}
		s.closed = true
		for _, ep := range K.epolls {
			delete(ep.regs, fd)
		}
		K.note("close", fd, 0, 0)
		return nil
	}
	if _, ok := K.epolls[fd]; ok {
		delete(K.epolls, fd)
		return nil
	}
	if _, ok := K.evfds[fd]; ok {
		delete(K.evfds, fd)
		return nil
	}
	K.deadFd("close", fd)
	return syscall.EBADF
}

// EpollCreate1 is syscall.EpollCreate1.
func EpollCreate1(flag int) (int, error) {
	K.mu.Lock()
	if !K.on {
		K.mu.Unlock()
		return syscall.EpollCreate1(flag)
	}
	defer K.mu.Unlock()
	fd := K.next
	K.next++
	K.epolls[fd] = &epoll{fd: fd, regs: map[int]*reg{}}
	return fd, nil
}

// EpollCtl is syscall.EpollCtl.
func EpollCtl(epfd int, op int, fd int, event *syscall.EpollEvent) error {
	err := epollCtlImpl(epfd, op, fd, event)
	if isSim(epfd) && isSim(fd) {
		K.mu.Lock()
		_, isSock := K.socks[fd]
		K.mu.Unlock()
		if isSock {
			after()
		}
	}
	return err
}

func epollCtlImpl(epfd int, op int, fd int, event *syscall.EpollEvent) error {
	if !isSim(epfd) {
		return syscall.EpollCtl(epfd, op, fd, event)
	}
	if K.socks[fd] != nil {
		yield("epoll_ctl", fd, nil)
	}
	K.mu.Lock()
	defer K.mu.Unlock()
	ep := K.epolls[epfd]
	if ep == nil {
		return syscall.EBADF
	}
	if s := K.socks[fd]; s != nil && s.closed {
		K.deadFd("epoll_ctl", fd)
		return syscall.EBADF
	}
	switch op {
	case syscall.EPOLL_CTL_ADD:
		if ep.regs[fd] != nil {
			K.note("epoll_ctl_add", fd, -1, syscall.EEXIST)
			return syscall.EEXIST
		}
		ep.regs[fd] = &reg{events: event.Events}
	case syscall.EPOLL_CTL_MOD:
		r := ep.regs[fd]
		if r == nil {
			K.note("epoll_ctl_mod", fd, -1, syscall.ENOENT)
			return syscall.ENOENT
		}
		r.events = event.Events
		r.disabled = false
	case syscall.EPOLL_CTL_DEL:
		if ep.regs[fd] == nil {
			return syscall.ENOENT
		}
		delete(ep.regs, fd)
		return nil
	}
	r := ep.regs[fd]
	if K.levelOf(fd, r.events) != 0 {
		ep.enqueue(fd)
		K.cond.Broadcast()
	}
	if op == syscall.EPOLL_CTL_ADD {
		K.note("epoll_ctl_add", fd, int(r.events&0x7fffffff), 0)
	} else {
		K.note("epoll_ctl_mod", fd, int(r.events&0x7fffffff), 0)
	}
	return nil
}

// EpollWait is syscall.EpollWait.
func EpollWait(epfd int, events []syscall.EpollEvent, msec int) (int, error) {
	if !isSim(epfd) {
		return syscall.EpollWait(epfd, events, msec)
	}
	managed := vrt.Cur() != nil && !K.NoYield
	if managed {
		yield("epoll_wait", epfd, func() bool {
			K.mu.Lock()
			defer K.mu.Unlock()
			ep := K.epolls[epfd]
			return ep == nil || msec >= 0 || K.hasReady(ep)
		})
	}
	K.mu.Lock()
	defer K.mu.Unlock()
	for {
		ep := K.epolls[epfd]
		if ep == nil {
			return -1, syscall.EBADF
		}
		n := 0
		var keep []int
		for _, fd := range ep.ready {
			r := ep.regs[fd]
			if r == nil || r.disabled {
				continue
			}
			if K.levelPure(fd, r.events) == 0 {
				keep = append(keep, fd) // nothing to report yet: stays until it has (see NbConn.tla, HasReady)
				continue
			}
			rev := K.levelOf(fd, r.events)
			if n >= len(events) {
				keep = append(keep, fd)
				continue
			}
			events[n] = syscall.EpollEvent{Events: rev, Fd: int32(fd)}
			n++
			if r.events&epollOneshot != 0 {
				r.disabled = true
			} else if r.events&epollET == 0 {
				keep = append(keep, fd) // level-triggered: stays on the list
			}
		}
		ep.ready = keep
		if n > 0 || msec >= 0 || managed {
			return n, nil
		}
		K.cond.Wait()
	}
}

// Syscall is syscall.Syscall (eventfd2 and writev are served for simulated objects).
func Syscall(trap, a1, a2, a3 uintptr) (uintptr, uintptr, syscall.Errno) {
	r1, r2, e := syscallImpl(trap, a1, a2, a3)
	if trap == syscall.SYS_WRITEV && isSim(int(a1)) {
		after()
	}
	return r1, r2, e
}

func syscallImpl(trap, a1, a2, a3 uintptr) (uintptr, uintptr, syscall.Errno) {
	switch trap {
	case syscall.SYS_EVENTFD2:
		K.mu.Lock()
		if K.on {
			fd := K.next
			K.next++
			K.evfds[fd] = &eventfd{fd: fd}
			K.mu.Unlock()
			return uintptr(fd), 0, 0
		}
		K.mu.Unlock()
	case syscall.SYS_WRITEV:
		fd := int(a1)
		if isSim(fd) {
			yield("writev", fd, nil)
			K.mu.Lock()
			defer K.mu.Unlock()
			s := K.socks[fd]
			if s == nil || s.closed {
				K.deadFd("writev", fd)
				return ^uintptr(0), 0, syscall.EBADF
			}
			iovs := (*[1 << 20]syscall.Iovec)(unsafe.Pointer(a2))[:int(a3):int(a3)]
			var all []byte
			for _, v := range iovs {
				if v.Len > 0 {
					all = append(all, (*[1 << 30]byte)(unsafe.Pointer(v.Base))[:int(v.Len):int(v.Len)]...)
				}
			}
			n, err := K.takeLocked(s, all, "writev")
			if err != nil {
				return ^uintptr(0), 0, err.(syscall.Errno)
			}
			return uintptr(n), 0, 0
		}
	}
	r1, r2, e := syscall.Syscall(trap, a1, a2, a3)
	if trap == syscall.SYS_WRITEV && RecSys != nil {
		if e != 0 {
			RecSys("writev", int(a1), -1, e)
		} else {
			RecSys("writev", int(a1), int(r1), nil)
		}
	}
	return r1, r2, e
}

// Sendfile is syscall.Sendfile (destination may be simulated, the source is a real file).
func Sendfile(outfd int, infd int, offset *int64, count int) (int, error) {
	n, err := sendfileImpl(outfd, infd, offset, count)
	if isSim(outfd) {
		after()
	}
	return n, err
}

func sendfileImpl(outfd int, infd int, offset *int64, count int) (int, error) {
	if !isSim(outfd) {
		n, err := syscall.Sendfile(outfd, infd, offset, count)
		if RecSys != nil {
			RecSys("sendfile", outfd, n, err)
		}
		return n, err
	}
	yield("sendfile", outfd, nil)
	K.mu.Lock()
	defer K.mu.Unlock()
	s := K.socks[outfd]
	if s == nil || s.closed {
		K.deadFd("sendfile", outfd)
		return -1, syscall.EBADF
	}
	room := s.sndCap - s.kbuf
	want := count
	if want > room {
		want = room
	}
	if len(s.errNext) > 0 || s.peerShut || want == 0 {
		if want == 0 && len(s.errNext) == 0 && !s.peerShut {
			s.nospace = true
		}
		return K.takeLocked(s, make([]byte, minInt(count, 1)), "sendfile")
	}
	buf := make([]byte, want)
	var off int64
	if offset != nil {
		off = *offset
	}
	n, err := syscall.Pread(infd, buf, off)
	if err != nil {
		return -1, err
	}
	if n == 0 {
		return 0, nil
	}
	if n < count {
		// file shorter than requested: no NOSPACE unless the socket limited us
	}
	if want < count && n == want {
		s.nospace = true
	}
	s.nWrite++
	s.kbuf += n
	if offset != nil {
		*offset += int64(n)
	}
	if K.OnTake != nil {
		K.OnTake(s.fd, buf[:n], "sendfile")
	}
	K.note("sendfile", s.fd, n, 0)
	return n, nil
}

func minInt(a, b int) int {
	if a < b {
		return a
	}
	return b
}

// SetNonblock is syscall.SetNonblock.
func SetNonblock(fd int, nb bool) error {
	if isSim(fd) {
		return nil
	}
	return syscall.SetNonblock(fd, nb)
}
