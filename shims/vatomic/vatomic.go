// Package vatomic replaces "sync/atomic" in instrumented library files: the 32-bit operations the
// asynchronous read gate uses are yield points of the cooperative scheduler (package vrt) for
// managed threads; everything else is passed through (generated zz_passthrough.go).
package vatomic

import (
	"sync/atomic"

	"github.com/lesismal/nbio/zzverif/vrt"
)

func yield(tag string) {
	if t := vrt.Cur(); t != nil {
		t.Yield(vrt.Op{Kind: "atomic", Tag: tag})
	}
}

// AddInt32 is atomic.AddInt32 (a yield point).
func AddInt32(addr *int32, delta int32) int32 {
	yield("add32")
	return atomic.AddInt32(addr, delta)
}

// LoadInt32 is atomic.LoadInt32 (a yield point).
func LoadInt32(addr *int32) int32 {
	yield("load32")
	return atomic.LoadInt32(addr)
}

// CompareAndSwapInt32 is atomic.CompareAndSwapInt32 (a yield point).
func CompareAndSwapInt32(addr *int32, old, new int32) bool {
	yield("cas32")
	return atomic.CompareAndSwapInt32(addr, old, new)
}
