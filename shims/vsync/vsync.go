// Package vsync replaces "sync" in the instrumented library packages.  Mutex.Lock is a yield point
// of the cooperative scheduler (package vrt) for managed goroutines and a plain sync.Mutex
// otherwise; Unlock optionally calls an observer while the lock is still held (the linearization
// point used for recorded traces).  Everything else is passed through to package sync.
package vsync

import (
	"sync"

	"github.com/lesismal/nbio/zzverif/vrt"
)

// Mutex is a drop-in replacement for sync.Mutex.
type Mutex struct {
	mu   sync.Mutex
	held bool // maintained only for managed threads (exactly one runs at a time)
	// Name is an optional label set by harness code through accessors.
	Name string
	// OnUnlock, if set, is called in Unlock while the lock is still held.
	OnUnlock func()
}

func (m *Mutex) Lock() {
	if t := vrt.Cur(); t != nil {
		t.Yield(vrt.Op{Kind: "lock", Tag: m.Name, Obj: m, Enabled: func() bool { return !m.held }})
		m.mu.Lock()
		m.held = true
		return
	}
	m.mu.Lock()
}

func (m *Mutex) TryLock() bool {
	if t := vrt.Cur(); t != nil {
		if m.held {
			return false
		}
		if m.mu.TryLock() {
			m.held = true
			return true
		}
		return false
	}
	return m.mu.TryLock()
}

func (m *Mutex) Unlock() {
	if m.OnUnlock != nil {
		m.OnUnlock()
	}
	if m.held {
		m.held = false
		m.mu.Unlock()
		// The code that follows an Unlock may be delayed arbitrarily with respect to other threads:
		// park here; the yield is transparent, i.e. passed when the thread is next stepped (lazy)
		// or right away if the driver asks for eager continuation.
		if t := vrt.Cur(); t != nil {
			t.Yield(vrt.Op{Kind: "unlocked", Tag: m.Name, Transparent: true})
		}
		return
	}
	m.mu.Unlock()
}

// Held reports whether a managed thread holds the mutex (scheduler bookkeeping).
func (m *Mutex) Held() bool { return m.held }

// Locker is sync.Locker.
type Locker = sync.Locker

// WaitGroup is a drop-in replacement for sync.WaitGroup.  For a managed thread Wait is a yield point that
// is enabled when the counter is zero; unmanaged goroutines wait on the embedded sync.WaitGroup.
type WaitGroup struct {
	mu   sync.Mutex
	n    int
	real sync.WaitGroup
}

func (w *WaitGroup) Add(delta int) {
	w.mu.Lock()
	w.n += delta
	neg := w.n < 0
	w.mu.Unlock()
	if neg {
		panic("sync: negative WaitGroup counter")
	}
	w.real.Add(delta)
}

func (w *WaitGroup) Done() { w.Add(-1) }

func (w *WaitGroup) Wait() {
	if t := vrt.Cur(); t != nil {
		t.Yield(vrt.Op{Kind: "wait", Tag: "waitgroup", Obj: w, Enabled: func() bool { return w.Count() == 0 }})
		return
	}
	w.real.Wait()
}

// Count returns the counter (scheduler bookkeeping and drift measurements).
func (w *WaitGroup) Count() int {
	w.mu.Lock()
	defer w.mu.Unlock()
	return w.n
}
