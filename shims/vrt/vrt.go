// Package vrt is the verification runtime: a cooperative scheduler that lets a driver step the
// goroutines of the real library from one yield point (lock acquisition, go statement, shimmed
// syscall, explicit Yield) to the next, so that an interleaving chosen by a TLA+ behaviour can be
// replayed deterministically on the real code.
//
// It lives (through the build overlay) at github.com/lesismal/nbio/zzverif/vrt so that both the
// instrumented library packages and the harness can import it.  When no scheduler is installed
// every entry point degenerates to the plain Go construct.
package vrt

import (
	"bytes"
	"fmt"
	"runtime"
	"strconv"
	"sync"
	"sync/atomic"
	"time"
)

// Op describes the operation a parked thread is about to perform.
type Op struct {
	Kind string      // "start", "lock", "go", "sys", "yield", "exit"
	Tag  string      // lock name / syscall name / yield tag
	Obj  interface{} // the object (e.g. *vsync.Mutex), for enabledness
	Arg  int
	// Transparent yields are granted automatically at the beginning of the thread's next Step.
	Transparent bool
	// Enabled reports whether the operation can complete now (nil = always).
	Enabled func() bool
}

func (o Op) String() string { return o.Kind + ":" + o.Tag }

const (
	stRunning = iota
	stParked
	stExited
)

// Thread is a goroutine managed by a Sched.
type Thread struct {
	Name    string
	s       *Sched
	grant   chan struct{}
	parked  chan struct{}
	state   int32
	pending Op
	Steps   int
	Panic   interface{}
}

// Sched is a cooperative scheduler.
type Sched struct {
	mu       sync.Mutex
	threads  map[string]*Thread
	order    []string
	byGid    sync.Map // int64 -> *Thread
	spawnSeq int
	Watchdog time.Duration
	// SpawnName, if set, names library-spawned goroutines (default g1, g2, ...).
	SpawnName func(n int) string
	// OnSpawn is called (in the spawning thread) whenever a thread is created.
	OnSpawn func(t *Thread)
	stuck   int32
}

var active atomic.Value // *Sched (or (*Sched)(nil))

// Install makes s the active scheduler (nil uninstalls).
func Install(s *Sched) {
	active.Store(&holder{s})
}

type holder struct{ s *Sched }

func cur() *Sched {
	h, _ := active.Load().(*holder)
	if h == nil {
		return nil
	}
	return h.s
}

// New returns a scheduler with a 10 s watchdog.
func New() *Sched {
	return &Sched{threads: map[string]*Thread{}, Watchdog: 10 * time.Second}
}

func gid() int64 {
	var buf [64]byte
	b := buf[:runtime.Stack(buf[:], false)]
	// "goroutine 123 ["
	b = b[len("goroutine "):]
	i := bytes.IndexByte(b, ' ')
	n, _ := strconv.ParseInt(string(b[:i]), 10, 64)
	return n
}

// Cur returns the managed thread of the calling goroutine, or nil.
func Cur() *Thread {
	s := cur()
	if s == nil {
		return nil
	}
	if t, ok := s.byGid.Load(gid()); ok {
		return t.(*Thread)
	}
	return nil
}

// Active reports whether a scheduler is installed.
func Active() bool { return cur() != nil }

// Spawn creates a managed thread running fn; it starts parked.
func (s *Sched) Spawn(name string, fn func()) *Thread {
	t := &Thread{Name: name, s: s, grant: make(chan struct{}), parked: make(chan struct{}, 1), state: stParked,
		pending: Op{Kind: "start", Transparent: true}}
	s.mu.Lock()
	if _, dup := s.threads[name]; dup {
		s.mu.Unlock()
		panic("vrt: duplicate thread " + name)
	}
	s.threads[name] = t
	s.order = append(s.order, name)
	s.mu.Unlock()
	if s.OnSpawn != nil {
		s.OnSpawn(t)
	}
	ready := make(chan struct{})
	go func() {
		s.byGid.Store(gid(), t)
		close(ready)
		<-t.grant
		atomic.StoreInt32(&t.state, stRunning)
		defer func() {
			if r := recover(); r != nil {
				t.Panic = r
			}
			s.byGid.Delete(gid())
			t.pending = Op{Kind: "exit"}
			atomic.StoreInt32(&t.state, stExited)
			t.parked <- struct{}{}
		}()
		fn()
	}()
	<-ready
	return t
}

// Go is what a rewritten `go` statement calls.
func Go(fn func()) {
	s := cur()
	if s == nil {
		go fn()
		return
	}
	parent := Cur()
	if parent != nil {
		parent.Yield(Op{Kind: "go", Tag: "spawn"})
	}
	s.mu.Lock()
	s.spawnSeq++
	n := s.spawnSeq
	s.mu.Unlock()
	name := "g" + strconv.Itoa(n)
	if s.SpawnName != nil {
		name = s.SpawnName(n)
	}
	s.Spawn(name, fn)
}

// Yield parks the calling thread until the driver grants op.
func (t *Thread) Yield(op Op) {
	t.pending = op
	atomic.StoreInt32(&t.state, stParked)
	t.parked <- struct{}{}
	<-t.grant
	atomic.StoreInt32(&t.state, stRunning)
}

// Yield is an explicit yield point for harness code (no-op outside managed threads).
func Yield(tag string) {
	if t := Cur(); t != nil {
		t.Yield(Op{Kind: "yield", Tag: tag})
	}
}

// YieldT is a transparent explicit yield: it is passed automatically when the thread is next stepped.
func YieldT(tag string) {
	if t := Cur(); t != nil {
		t.Yield(Op{Kind: "yield", Tag: tag, Transparent: true})
	}
}

// Thread returns the named thread or nil.
func (s *Sched) Thread(name string) *Thread {
	s.mu.Lock()
	defer s.mu.Unlock()
	return s.threads[name]
}

// Threads returns thread names in creation order.
func (s *Sched) Threads() []string {
	s.mu.Lock()
	defer s.mu.Unlock()
	return append([]string(nil), s.order...)
}

// Exited reports whether the thread has finished.
func (t *Thread) Exited() bool { return atomic.LoadInt32(&t.state) == stExited }

// Pending returns the operation the thread is parked at.
func (t *Thread) Pending() Op { return t.pending }

// ErrStuck is returned when a granted thread neither parks nor exits within the watchdog.
type ErrStuck struct{ Thread string }

func (e ErrStuck) Error() string { return "vrt: thread " + e.Thread + " stuck (blocked outside the scheduler)" }

// ErrNotRunnable is returned when the thread cannot be stepped now.
type ErrNotRunnable struct {
	Thread string
	Why    string
}

func (e ErrNotRunnable) Error() string { return "vrt: thread " + e.Thread + " not runnable: " + e.Why }

func (s *Sched) grantWait(t *Thread) error {
	t.Steps++
	t.grant <- struct{}{}
	select {
	case <-t.parked:
		return nil
	case <-time.After(s.Watchdog):
		atomic.StoreInt32(&s.stuck, 1)
		return ErrStuck{t.Name}
	}
}

// Runnable reports whether Step(name) would make progress.
func (s *Sched) Runnable(name string) bool {
	t := s.Thread(name)
	if t == nil || t.Exited() {
		return false
	}
	op := t.pending
	if op.Transparent {
		return true
	}
	return op.Enabled == nil || op.Enabled()
}

// Step grants the named thread its pending operation and waits until it parks at its next yield
// point or exits.  Leading transparent yields are passed first.  It returns the operation granted.
func (s *Sched) Step(name string) (Op, error) {
	if atomic.LoadInt32(&s.stuck) != 0 {
		return Op{}, ErrStuck{name}
	}
	t := s.Thread(name)
	if t == nil {
		return Op{}, ErrNotRunnable{name, "no such thread"}
	}
	if t.Exited() {
		return Op{}, ErrNotRunnable{name, "exited"}
	}
	for t.pending.Transparent {
		if err := s.grantWait(t); err != nil {
			return Op{}, err
		}
		if t.Exited() {
			return Op{Kind: "exit"}, nil
		}
	}
	op := t.pending
	if op.Enabled != nil && !op.Enabled() {
		return op, ErrNotRunnable{name, "blocked at " + op.String()}
	}
	if err := s.grantWait(t); err != nil {
		return op, err
	}
	return op, nil
}

// PassTransparent lets the thread run past any transparent yields it is parked at (eager
// continuation of the code that follows an Unlock).
func (s *Sched) PassTransparent(name string) error {
	t := s.Thread(name)
	if t == nil {
		return nil
	}
	for !t.Exited() && t.pending.Transparent && (t.pending.Kind == "unlocked" || t.pending.Kind == "sysret") {
		if err := s.grantWait(t); err != nil {
			return err
		}
	}
	return nil
}

// PassAllTransparent lets the thread run past every transparent yield it is parked at, including the
// initial one of a thread that has not started yet, without granting a real operation.
func (s *Sched) PassAllTransparent(name string) error {
	t := s.Thread(name)
	if t == nil {
		return nil
	}
	for !t.Exited() && t.pending.Transparent {
		if err := s.grantWait(t); err != nil {
			return err
		}
	}
	return nil
}

// RunToQuiescence steps runnable threads round-robin (creation order) until none is runnable or
// max steps were taken.  It returns the number of steps and whether everything exited.
func (s *Sched) RunToQuiescence(max int, skip func(name string) bool) (int, error) {
	n := 0
	for n < max {
		progressed := false
		for _, name := range s.Threads() {
			if skip != nil && skip(name) {
				continue
			}
			if s.Runnable(name) {
				if _, err := s.Step(name); err != nil {
					if _, ok := err.(ErrNotRunnable); ok {
						continue
					}
					return n, err
				}
				n++
				progressed = true
			}
		}
		if !progressed {
			return n, nil
		}
	}
	return n, fmt.Errorf("vrt: no quiescence after %d steps", max)
}

// AllExited reports whether every thread has exited.
func (s *Sched) AllExited() bool {
	for _, name := range s.Threads() {
		if !s.Thread(name).Exited() {
			return false
		}
	}
	return true
}

// Abandon releases every parked thread so that its goroutine can run to completion unmanaged
// (used at the end of a scenario; the scheduler must be uninstalled first).
func (s *Sched) Abandon() {
	for _, name := range s.Threads() {
		t := s.Thread(name)
		if t.Exited() {
			continue
		}
		go func(t *Thread) {
			for !t.Exited() {
				select {
				case t.grant <- struct{}{}:
				case <-t.parked:
				case <-time.After(50 * time.Millisecond):
				}
			}
		}(t)
	}
}
