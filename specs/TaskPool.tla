------------------------------ MODULE TaskPool ------------------------------
(***************************************************************************)
(* Implementation-level specification of taskpool.TaskPool                 *)
(* (taskpool/taskpool.go): an atomic counter `concurrent` gates the number  *)
(* of worker goroutines; tasks that cannot fork a worker go through a      *)
(* bounded channel to a dispatcher goroutine, which tries to fork again     *)
(* and otherwise runs the task itself; a worker drains the channel before   *)
(* it exits.                                                               *)
(*                                                                         *)
(*   Go(f):        c := concurrent+1 (atomic);  c < max -> spawn worker(f)  *)
(*                 else concurrent-- ; send f on the channel                *)
(*   worker(f):    run f; loop { non-blocking receive g -> run g | exit };  *)
(*                 concurrent-- on exit                                     *)
(*   dispatcher:   receive f; c := concurrent+1; c < max -> spawn worker(f) *)
(*                 else [concurrent-- : repaired code] ; run f              *)
(*   Stop:         concurrent += max ; close(chClose)                       *)
(*                                                                         *)
(* Fix: "disp_dec" = repair of the dispatcher's counter leak, "stop_drain" *)
(* = the dispatcher runs what is still queued when the pool is stopped.     *)
(***************************************************************************)
EXTENDS Integers, Sequences, FiniteSets, TLC

CONSTANTS N,          \* configured maximum (New(N, Q)) ; maxConcurrent = N - 1
          Q,          \* channel capacity (>= 1)
          Subs,       \* submitter threads
          PerSub,     \* tasks per submitter
          WithStop,   \* BOOLEAN
          Fix

Max == N - 1

VARIABLES conc, queue, workers, disp, spc, cnt, hold, ran, running, stopped, nextw

vars == <<conc, queue, workers, disp, spc, cnt, hold, ran, running, stopped, nextw>>

Task(s, k) == <<s, k>>
Tasks == {Task(s, k) : s \in Subs, k \in 1..PerSub}

Init == /\ conc = 0 /\ queue = <<>> /\ workers = {} /\ disp = [pc |-> "recv", f |-> <<>>]
        /\ spc = [s \in Subs |-> "idle"] /\ cnt = [s \in Subs |-> 0] /\ hold = [s \in Subs |-> <<>>]
        /\ ran = [t \in Tasks |-> 0] /\ running = {} /\ stopped = FALSE /\ nextw = 1

(* ---- Go ---- *)
GoFork(s) ==
    /\ spc[s] = "idle" /\ cnt[s] < PerSub
    /\ LET t == Task(s, cnt[s] + 1) IN
       /\ conc' = conc + 1 /\ cnt' = [cnt EXCEPT ![s] = @ + 1]
       /\ IF conc + 1 < Max
            THEN /\ workers' = workers \cup {[id |-> nextw, f |-> t, pc |-> "run"]} /\ nextw' = nextw + 1
                 /\ UNCHANGED <<spc, hold>>
            ELSE /\ spc' = [spc EXCEPT ![s] = "dec"] /\ hold' = [hold EXCEPT ![s] = t]
                 /\ UNCHANGED <<workers, nextw>>
    /\ UNCHANGED <<queue, disp, ran, running, stopped>>
GoDec(s) ==
    /\ spc[s] = "dec" /\ conc' = conc - 1 /\ spc' = [spc EXCEPT ![s] = "send"]
    /\ UNCHANGED <<queue, workers, disp, cnt, hold, ran, running, stopped, nextw>>
GoSend(s) ==
    /\ spc[s] = "send"
    /\ \/ /\ Len(queue) < Q /\ queue' = Append(queue, hold[s])
       \/ /\ stopped /\ UNCHANGED queue                      \* select: case <-tp.chClose
    /\ spc' = [spc EXCEPT ![s] = "idle"]
    /\ UNCHANGED <<conc, workers, disp, cnt, hold, ran, running, stopped, nextw>>

(* ---- workers ---- *)
Upd(w, e) == (workers \ {w}) \cup {e}
WRun(w) == /\ w \in workers /\ w.pc = "run"
           /\ ran' = [ran EXCEPT ![w.f] = @ + 1] /\ running' = running \cup {w.f}
           /\ workers' = Upd(w, [w EXCEPT !.pc = "end"])
           /\ UNCHANGED <<conc, queue, disp, spc, cnt, hold, stopped, nextw>>
WEnd(w) == /\ w \in workers /\ w.pc = "end"
           /\ running' = running \ {w.f}
           /\ workers' = Upd(w, [w EXCEPT !.pc = "next"])
           /\ UNCHANGED <<conc, queue, disp, spc, cnt, hold, ran, stopped, nextw>>
WNext(w) == /\ w \in workers /\ w.pc = "next"
            /\ IF queue # <<>>
                 THEN /\ workers' = Upd(w, [w EXCEPT !.pc = "run", !.f = Head(queue)]) /\ queue' = Tail(queue)
                      /\ UNCHANGED conc
                 ELSE /\ workers' = workers \ {w} /\ conc' = conc - 1 /\ UNCHANGED queue
            /\ UNCHANGED <<disp, spc, cnt, hold, ran, running, stopped, nextw>>

(* ---- dispatcher ---- *)
DRecv == /\ disp.pc = "recv" /\ queue # <<>>
         /\ disp' = [pc |-> "fork", f |-> Head(queue)] /\ queue' = Tail(queue)
         /\ UNCHANGED <<conc, workers, spc, cnt, hold, ran, running, stopped, nextw>>
\* case <-tp.chClose: (repaired code) run what is still queued, then exit
DExit == /\ disp.pc = "recv" /\ stopped
         /\ IF "stop_drain" \in Fix /\ queue # <<>>
              THEN disp' = [pc |-> "drun", f |-> Head(queue)] /\ queue' = Tail(queue)
              ELSE disp' = [pc |-> "gone", f |-> <<>>] /\ UNCHANGED queue
         /\ UNCHANGED <<conc, workers, spc, cnt, hold, ran, running, stopped, nextw>>
DDrainRun == /\ disp.pc = "drun" /\ ran' = [ran EXCEPT ![disp.f] = @ + 1] /\ running' = running \cup {disp.f}
             /\ disp' = [disp EXCEPT !.pc = "dend"]
             /\ UNCHANGED <<conc, queue, workers, spc, cnt, hold, stopped, nextw>>
DDrainEnd == /\ disp.pc = "dend" /\ running' = running \ {disp.f}
             /\ IF queue # <<>> THEN disp' = [pc |-> "drun", f |-> Head(queue)] /\ queue' = Tail(queue)
                ELSE disp' = [pc |-> "gone", f |-> <<>>] /\ UNCHANGED queue
             /\ UNCHANGED <<conc, workers, spc, cnt, hold, ran, stopped, nextw>>
DFork == /\ disp.pc = "fork"
         /\ IF conc + 1 < Max
              THEN /\ conc' = conc + 1
                   /\ workers' = workers \cup {[id |-> nextw, f |-> disp.f, pc |-> "run"]} /\ nextw' = nextw + 1
                   /\ disp' = [pc |-> "recv", f |-> <<>>]
              ELSE /\ conc' = IF "disp_dec" \in Fix THEN conc ELSE conc + 1      \* the leak
                   /\ disp' = [disp EXCEPT !.pc = "run"]
                   /\ UNCHANGED <<workers, nextw>>
         /\ UNCHANGED <<queue, spc, cnt, hold, ran, running, stopped>>
DRun == /\ disp.pc = "run" /\ ran' = [ran EXCEPT ![disp.f] = @ + 1] /\ running' = running \cup {disp.f}
        /\ disp' = [disp EXCEPT !.pc = "end"]
        /\ UNCHANGED <<conc, queue, workers, spc, cnt, hold, stopped, nextw>>
DEnd == /\ disp.pc = "end" /\ running' = running \ {disp.f} /\ disp' = [pc |-> "recv", f |-> <<>>]
        /\ UNCHANGED <<conc, queue, workers, spc, cnt, hold, ran, stopped, nextw>>

Stop == /\ WithStop /\ ~stopped /\ stopped' = TRUE /\ conc' = conc + Max
        /\ UNCHANGED <<queue, workers, disp, spc, cnt, hold, ran, running, nextw>>

Next == \/ \E s \in Subs : GoFork(s) \/ GoDec(s) \/ GoSend(s)
        \/ \E w \in workers : WRun(w) \/ WEnd(w) \/ WNext(w)
        \/ DRecv \/ DExit \/ DDrainRun \/ DDrainEnd \/ DFork \/ DRun \/ DEnd \/ Stop
Spec == Init /\ [][Next]_vars /\ WF_vars(Next)

(* ---- properties ---- *)
AtMostOnce     == \A t \in Tasks : ran[t] <= 1
WithinBound    == Cardinality(running) <= N
Idle == workers = {} /\ queue = <<>> /\ disp.pc = "recv" /\ \A s \in Subs : spc[s] = "idle"
ExactlyOnceAtIdle == (Idle /\ ~stopped) => \A s \in Subs : \A k \in 1..cnt[s] : ran[Task(s, k)] = 1
CapacityRecovers  == (Idle /\ ~stopped) => conc = 0          \* parallelism is not lost after overload
CounterSane       == ~stopped => conc >= 0
=============================================================================
