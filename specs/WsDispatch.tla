----------------------------- MODULE WsDispatch -----------------------------
(***************************************************************************)
(* Implementation-level specification of how the callbacks of one          *)
(* WebSocket connection are dispatched in the upgrade paths of              *)
(* nbhttp/websocket (upgrader.go Upgrade, conn.go handleMessage /           *)
(* CloseAndClean, nbhttp/engine.go close hook, conn.go Execute).            *)
(*                                                                         *)
(*  Path "poller"   the upgrade request is a job of the connection's job    *)
(*                  queue; the open handler runs inside it; the poller      *)
(*                  parses later frames and appends message jobs; the       *)
(*                  close hook appends the close job (MustExecute)          *)
(*  Path "inline"   blocking paths (read by the HTTP parser, or by the      *)
(*                  connection's own loop started after the open handler):  *)
(*                  one goroutine reads, runs the open handler, the message *)
(*                  callbacks and finally the close callback                *)
(*  Path "transfer" the handler goroutine adds the connection to a poller   *)
(*                  (AddTransferredConn), answers 101 and runs the open      *)
(*                  handler; the poller parses frames and appends message    *)
(*                  jobs as soon as the connection was added.                *)
(*                  Fix "gate": message jobs and the close callback wait    *)
(*                  until the open handler is done.  Without "queue" (one-   *)
(*                  shot engines before the repair) message callbacks run   *)
(*                  on the poller itself, not through the job queue.        *)
(*                                                                         *)
(* Callbacks are two-step (begin, end) so that overlap is observable.       *)
(***************************************************************************)
EXTENDS Integers, Sequences, FiniteSets, TLC

CONSTANTS Paths,     \* the upgrade paths explored: subset of {"poller", "inline", "transfer"}
          NMsg, Fix

VARIABLES path,      \* the upgrade path of this connection
          added,     \* the poller reads the connection
          opn,       \* open handler: "no" | "run" | "done"
          parsed,    \* frames parsed so far (0..NMsg)
          peergone,  \* the peer closed / a read failed
          closeq,    \* the close handling was queued / requested
          jobq,      \* connection job queue: sequence of "m<k>" numbers (k) or 0 for the close job
          running,   \* job in execution: -1 none, 0 close, k message k ; second component: phase
          inl,       \* callback running inline on the reader / poller: -1 none, k
          log        \* callbacks begun and ended: sequence of <<kind, k>>
vars == <<path, added, opn, parsed, peergone, closeq, jobq, running, inl, log>>

Init == /\ path \in Paths /\ added = (path # "transfer") /\ opn = "no" /\ parsed = 0 /\ peergone = FALSE /\ closeq = FALSE
        /\ jobq = <<>> /\ running = -1 /\ inl = -1 /\ log = <<>>

Gate == path = "transfer" /\ "gate" \in Fix
Queued == path = "poller" \/ (path = "transfer" /\ "queue" \in Fix)
OpenDone == opn = "done"
\* in the poller path the upgrade request itself occupies the job queue until the open handler is done
QueueBusy == running # -1 \/ (path = "poller" /\ opn # "done")

(* ---- the goroutine that runs Upgrade ---- *)
Add == /\ path = "transfer" /\ ~added /\ added' = TRUE
       /\ UNCHANGED <<path, opn, parsed, peergone, closeq, jobq, running, inl, log>>
OpenBegin == /\ opn = "no" /\ added /\ opn' = "run" /\ log' = Append(log, <<"openb", 0>>)
             /\ UNCHANGED <<path, added, parsed, peergone, closeq, jobq, running, inl>>
OpenEnd == /\ opn = "run" /\ opn' = "done" /\ log' = Append(log, <<"opene", 0>>)
           /\ UNCHANGED <<path, added, parsed, peergone, closeq, jobq, running, inl>>

(* ---- the reader (poller or the connection's goroutine) ---- *)
\* parse the next frame and dispatch its message
Parse == /\ added /\ ~peergone /\ parsed < NMsg /\ inl = -1
         /\ (path = "inline" => OpenDone)            \* the same goroutine ran the open handler before it reads on
         /\ parsed' = parsed + 1
         /\ IF Queued THEN jobq' = Append(jobq, parsed + 1) /\ UNCHANGED <<inl, log>>
            ELSE inl' = parsed + 1 /\ log' = Append(log, <<"msgb", parsed + 1>>) /\ UNCHANGED jobq
         /\ UNCHANGED <<path, added, opn, peergone, closeq, running>>
InlineEnd == /\ inl > 0 /\ log' = Append(log, <<"msge", inl>>) /\ inl' = -1
             /\ UNCHANGED <<path, added, opn, parsed, peergone, closeq, jobq, running>>
\* the peer goes away: the reader notices and requests the close handling
PeerGone == /\ added /\ ~peergone /\ inl = -1 /\ (path = "inline" => OpenDone)
            /\ peergone' = TRUE /\ closeq' = TRUE
            /\ IF path = "inline" THEN UNCHANGED jobq ELSE jobq' = Append(jobq, 0)     \* MustExecute
            /\ UNCHANGED <<path, added, opn, parsed, running, inl, log>>
\* inline paths: the close callback at the end of the read loop
InlineClose == /\ path = "inline" /\ closeq /\ inl = -1 /\ running = -1
               /\ ~(\E i \in 1..Len(log) : log[i][1] = "closecb")
               /\ log' = Append(log, <<"closecb", 0>>)
               /\ UNCHANGED <<path, added, opn, parsed, peergone, closeq, jobq, running, inl>>

(* ---- the executor running the connection's job queue ---- *)
JobBegin == /\ path # "inline" /\ ~QueueBusy /\ jobq # <<>>
            /\ (Gate => OpenDone)                       \* the job waits for the open handler
            /\ running' = Head(jobq) /\ jobq' = Tail(jobq)
            /\ log' = Append(log, IF Head(jobq) = 0 THEN <<"closecb", 0>> ELSE <<"msgb", Head(jobq)>>)
            /\ UNCHANGED <<path, added, opn, parsed, peergone, closeq, inl>>
JobEnd == /\ running # -1
          /\ log' = IF running = 0 THEN log ELSE Append(log, <<"msge", running>>)
          /\ running' = -1
          /\ UNCHANGED <<path, added, opn, parsed, peergone, closeq, jobq, inl>>

Next == Add \/ OpenBegin \/ OpenEnd \/ Parse \/ InlineEnd \/ PeerGone \/ InlineClose \/ JobBegin \/ JobEnd
Spec == Init /\ [][Next]_vars /\ WF_vars(Next)

(* ---- properties (the first sentence of C14) ---- *)
Pos(kind, k) == IF \E i \in 1..Len(log) : log[i] = <<kind, k>> THEN CHOOSE i \in 1..Len(log) : log[i] = <<kind, k>> ELSE 0
OpenBeforeMsg == \A i \in 1..Len(log) : log[i][1] \in {"msgb", "closecb"} => (Pos("opene", 0) # 0 /\ Pos("opene", 0) < i)
OneAtATime == \A i \in 1..Len(log) : log[i][1] = "msgb" =>
                 \A j \in 1..(i - 1) : log[j][1] = "msgb" => (Pos("msge", log[j][2]) # 0 /\ Pos("msge", log[j][2]) < i)
WireOrder == \A i, j \in 1..Len(log) : (i < j /\ log[i][1] = "msgb" /\ log[j][1] = "msgb") => log[i][2] < log[j][2]
CloseOnceLast == \A i \in 1..Len(log) : log[i][1] = "closecb" =>
                    /\ \A j \in 1..Len(log) : log[j][1] = "closecb" => j = i
                    /\ \A j \in (i + 1)..Len(log) : log[j][1] # "msgb"
                    /\ \A j \in 1..(i - 1) : log[j][1] = "msgb" => (Pos("msge", log[j][2]) # 0 /\ Pos("msge", log[j][2]) < i)
CloseHappens == peergone ~> (\E i \in 1..Len(log) : log[i][1] = "closecb")
=============================================================================
