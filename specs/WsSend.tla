------------------------------- MODULE WsSend -------------------------------
(***************************************************************************)
(* Implementation-level specification of the write side of                 *)
(* websocket.Conn (nbhttp/websocket/conn.go: WriteMessage / WriteFrame /    *)
(* writeFrame / CloseAndClean), at the grain of the vrt runtime: one action *)
(* = one thread step from a yield point (Lock of the connection mutex, a    *)
(* go statement, Write on the underlying connection) to the next.           *)
(*                                                                         *)
(* A message of writer w is a sequence of frames <<w, m, k>> (k = 1..n).     *)
(*                                                                         *)
(* direct mode (sendQueue = nil):                                           *)
(*   WLock   Lock; closed -> ErrClosed | parked at Conn.Write of frame 1     *)
(*   WWrite  Conn.Write(frame k); k = n -> Unlock, return nil                *)
(* queued mode (BlockingModAsyncWrite):                                     *)
(*   WLock   Lock; closed -> ErrClosed                                      *)
(*           append frame 1; queue was empty -> slot := nil, parked at `go`  *)
(*           else append the other frames; Unlock; return nil               *)
(*   WGo     start the drainer with frame 1; append the other frames;       *)
(*           Unlock; return nil                                             *)
(*   drainer d:                                                             *)
(*   DWrite  Conn.Write(cur); i := i + 1 (error -> CloseWithError: DErr)     *)
(*   DLock   Lock; closed -> exit | len(queue) <= i -> queue := [], exit     *)
(*           | cur := queue[i]; slot := nil; Unlock (cur = nil -> exit)      *)
(*   Close   CloseAndClean: Lock; closed := TRUE; every slot := nil; Unlock  *)
(***************************************************************************)
EXTENDS Integers, Sequences, FiniteSets, TLC

CONSTANTS Writers,      \* set of writer threads
          Msgs,         \* [Writers -> Seq(Nat)]: frames per message
          Async,        \* queued mode
          WithClose,    \* a closer thread calls CloseAndClean
          MaxDrainers

NIL == <<>>
VARIABLES mux, q, closed, wire, pc, mi, fi, dr, nd, rets, closerDone
vars == <<mux, q, closed, wire, pc, mi, fi, dr, nd, rets, closerDone>>

Frames(w, m) == [k \in 1..Msgs[w][m] |-> <<w, m, k>>]
DIds == 1..MaxDrainers

Init == /\ mux = "none" /\ q = <<>> /\ closed = FALSE /\ wire = <<>>
        /\ pc = [w \in Writers |-> "idle"] /\ mi = [w \in Writers |-> 1] /\ fi = [w \in Writers |-> 1]
        /\ dr = [d \in DIds |-> [st |-> "none", cur |-> NIL, i |-> 0]] /\ nd = 0
        /\ rets = [w \in Writers |-> <<>>] /\ closerDone = FALSE

Finish(w, r) == /\ rets' = [rets EXCEPT ![w] = Append(@, r)]
                /\ mi' = [mi EXCEPT ![w] = @ + 1]
                /\ pc' = [pc EXCEPT ![w] = "idle"]

(* ---- writers ---- *)
WLock(w) ==
    /\ pc[w] = "idle" /\ mi[w] <= Len(Msgs[w]) /\ mux = "none"
    /\ IF closed
         THEN Finish(w, "closed") /\ UNCHANGED <<mux, q, closed, wire, fi, dr, nd, closerDone>>
         ELSE IF ~Async
           THEN /\ mux' = w /\ pc' = [pc EXCEPT ![w] = "wr"] /\ fi' = [fi EXCEPT ![w] = 1]
                /\ UNCHANGED <<q, closed, wire, mi, dr, nd, rets, closerDone>>
           ELSE IF Len(q) = 0
             THEN /\ q' = <<NIL>>                              \* head: the slot is cleared, the frame goes to the drainer
                  /\ mux' = w /\ pc' = [pc EXCEPT ![w] = "go"]
                  /\ UNCHANGED <<closed, wire, mi, fi, dr, nd, rets, closerDone>>
             ELSE /\ q' = q \o Frames(w, mi[w])
                  /\ Finish(w, "ok")
                  /\ UNCHANGED <<mux, closed, wire, fi, dr, nd, closerDone>>

WGo(w) ==
    /\ pc[w] = "go" /\ nd < MaxDrainers
    /\ nd' = nd + 1
    /\ dr' = [dr EXCEPT ![nd + 1] = [st |-> "write", cur |-> <<w, mi[w], 1>>, i |-> 0]]
    /\ q' = q \o SubSeq(Frames(w, mi[w]), 2, Msgs[w][mi[w]])
    /\ mux' = "none" /\ Finish(w, "ok")
    /\ UNCHANGED <<closed, wire, fi, closerDone>>

WWrite(w) ==
    /\ pc[w] = "wr"
    /\ wire' = Append(wire, <<w, mi[w], fi[w]>>)
    /\ IF fi[w] = Msgs[w][mi[w]]
         THEN mux' = "none" /\ Finish(w, "ok") /\ UNCHANGED fi
         ELSE fi' = [fi EXCEPT ![w] = @ + 1] /\ UNCHANGED <<mux, pc, mi, rets>>
    /\ UNCHANGED <<q, closed, dr, nd, closerDone>>

(* ---- drainer ---- *)
DWrite(d) ==
    /\ dr[d].st = "write"
    /\ IF closed      \* CloseAndClean closed the underlying connection: Write fails, CloseWithError (parked at its Lock)
         THEN dr' = [dr EXCEPT ![d].st = "errlock"] /\ UNCHANGED wire
         ELSE wire' = Append(wire, dr[d].cur) /\ dr' = [dr EXCEPT ![d].st = "lock", ![d].i = @ + 1]
    /\ UNCHANGED <<mux, q, closed, pc, mi, fi, nd, rets, closerDone>>

DErr(d) ==            \* SetCloseError: Lock, Unlock; Close; exit
    /\ dr[d].st = "errlock" /\ mux = "none"
    /\ dr' = [dr EXCEPT ![d].st = "done"]
    /\ UNCHANGED <<mux, q, closed, wire, pc, mi, fi, nd, rets, closerDone>>

DLock(d) ==
    /\ dr[d].st = "lock" /\ mux = "none"
    /\ IF closed THEN dr' = [dr EXCEPT ![d].st = "done"] /\ UNCHANGED q
       ELSE IF Len(q) <= dr[d].i THEN dr' = [dr EXCEPT ![d].st = "done"] /\ q' = <<>>
       ELSE /\ q' = [q EXCEPT ![dr[d].i + 1] = NIL]
            /\ dr' = [dr EXCEPT ![d].cur = q[dr[d].i + 1],
                                ![d].st = IF q[dr[d].i + 1] = NIL THEN "done" ELSE "write"]
    /\ UNCHANGED <<mux, closed, wire, pc, mi, fi, nd, rets, closerDone>>

(* ---- close ---- *)
Close ==
    /\ WithClose /\ ~closerDone /\ mux = "none"
    /\ closerDone' = TRUE
    /\ IF closed THEN UNCHANGED <<closed, q>>
       ELSE closed' = TRUE /\ q' = [j \in 1..Len(q) |-> NIL]
    /\ UNCHANGED <<mux, wire, pc, mi, fi, dr, nd, rets>>

Next == \/ \E w \in Writers : WLock(w) \/ WGo(w) \/ WWrite(w)
        \/ \E d \in DIds : DWrite(d) \/ DLock(d) \/ DErr(d)
        \/ Close
Spec == Init /\ [][Next]_vars /\ WF_vars(Next)

(* ---- properties ---- *)
Active(d) == dr[d].st \in {"write", "lock", "errlock"}
OneDrainer == Cardinality({d \in DIds : Active(d)}) <= 1
DrainersSuffice == nd <= MaxDrainers

\* frames of a message are contiguous and in order on the wire
Whole == \A j \in 1..Len(wire) :
            LET f == wire[j] IN
            /\ f[3] > 1 => (j > 1 /\ wire[j - 1] = <<f[1], f[2], f[3] - 1>>)
            /\ (f[3] = 1 /\ j > 1) => wire[j - 1][3] = Msgs[wire[j - 1][1]][wire[j - 1][2]]
NoDup == \A j, k \in 1..Len(wire) : wire[j] = wire[k] => j = k
WriterOrder == \A j, k \in 1..Len(wire) : (j < k /\ wire[j][1] = wire[k][1]) => wire[j][2] <= wire[k][2]

Quiet == /\ \A w \in Writers : pc[w] = "idle" /\ mi[w] > Len(Msgs[w])
         /\ \A d \in DIds : ~Active(d)
OnWire(w, m) == \A k \in 1..Msgs[w][m] : \E j \in 1..Len(wire) : wire[j] = <<w, m, k>>
\* a message whose write returned nil on a connection that was not closed reaches the wire
NoLoss == (Quiet /\ ~closed) => \A w \in Writers : \A m \in 1..Len(rets[w]) : rets[w][m] = "ok" => OnWire(w, m)
\* nothing waits in the queue without a drainer
NoStrandedFrame == (~closed /\ (\E j \in 1..Len(q) : q[j] # NIL) /\ mux = "none") => \E d \in DIds : Active(d)
ClosedRefuses == \A w \in Writers : \A m \in 1..Len(rets[w]) : rets[w][m] = "closed" => closed

Drained == <>[](Quiet)
TypeOK == /\ mux \in Writers \cup {"none"} /\ closed \in BOOLEAN /\ nd \in 0..MaxDrainers
=============================================================================
