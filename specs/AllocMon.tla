------------------------------ MODULE AllocMon ------------------------------
(***************************************************************************)
(* Property-level monitor for C20.  One event per allocator call:          *)
(*   op kind slot n len content others disjoint                            *)
(* kind \in {"malloc","append","appendstr","realloc","free"}; len = length *)
(* of the returned buffer; content = the returned buffer holds the previous *)
(* contents followed by the new bytes (cut / extended for realloc);         *)
(* others = every OTHER live buffer still holds exactly what was put into   *)
(* it; disjoint = the memory ranges [base, base+cap) of all live buffers    *)
(* are pairwise disjoint.  The three booleans are measured by the driver    *)
(* against a shadow copy; the monitor states the contract.                  *)
(***************************************************************************)
EXTENDS Integers, Sequences, FiniteSets, TLC
Fn(f, k, v) == [x \in (DOMAIN f) \cup {k} |-> IF x = k THEN v ELSE f[x]]
MonInit(e) == [live |-> <<>>]         \* slot -> length (absent: no buffer)
Has(st, s) == s \in DOMAIN st.live /\ st.live[s] >= 0
Expected(st, e) ==
    CASE e.kind = "malloc"    -> e.n
      [] e.kind = "append"    -> st.live[e.slot] + e.n
      [] e.kind = "appendstr" -> st.live[e.slot] + e.n
      [] e.kind = "realloc"   -> e.n
      [] OTHER -> -1
Guard(st, e) ==
    CASE e.ev = "op" /\ e.kind = "malloc" -> ~Has(st, e.slot) /\ e.len = e.n /\ e.others /\ e.disjoint
      [] e.ev = "op" /\ e.kind = "free"   -> Has(st, e.slot) /\ e.others /\ e.disjoint
      [] e.ev = "op" -> Has(st, e.slot) /\ e.len = Expected(st, e) /\ e.content /\ e.others /\ e.disjoint
      [] e.ev = "panic" -> FALSE
      [] OTHER -> TRUE
Effect(st, e) ==
    CASE e.ev = "op" /\ e.kind = "free" -> [st EXCEPT !.live = Fn(@, e.slot, -1)]
      [] e.ev = "op" -> [st EXCEPT !.live = Fn(@, e.slot, e.len)]
      [] OTHER -> st
Why(st, e) ==
    CASE e.ev = "panic" -> "allocator call panicked"
      [] e.ev = "op" /\ e.kind # "free" /\ Has(st, e.slot) = (e.kind = "malloc") -> "recorder error: slot state"
      [] e.ev = "op" /\ e.kind # "free" /\ e.len # Expected(st, e) -> "returned buffer has the wrong length"
      [] e.ev = "op" /\ e.kind \notin {"free", "malloc"} /\ ~e.content -> "returned buffer does not hold the previous contents followed by the new bytes"
      [] e.ev = "op" /\ ~e.others -> "the operation changed the contents of another live buffer"
      [] e.ev = "op" /\ ~e.disjoint -> "two live buffers share memory"
      [] OTHER -> "event not allowed"
=============================================================================
