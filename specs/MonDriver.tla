----------------------------- MODULE MonDriver -----------------------------
(***************************************************************************)
(* Generic trace driver for *total* property monitors.                     *)
(*                                                                         *)
(* A monitor is given by MonInit(e) (state after a "reset" event, which    *)
(* separates the concatenated traces of individual scenarios),             *)
(* Guard(st, e) (is event e allowed in monitor state st -- this IS the     *)
(* property), Effect(st, e) (next monitor state) and Why(st, e) (a short   *)
(* explanation of a rejection).  The driver consumes the trace line by     *)
(* line.  A rejected event is recorded with its line number and the rest   *)
(* of that scenario is skipped (up to the next reset), so one run reports  *)
(* the first rejected event of every scenario.  When the end of the trace  *)
(* is reached the verdicts are written to OutFile; a run that does not     *)
(* write the file did not examine the trace and is treated as an           *)
(* infrastructure error, never as acceptance.                              *)
(***************************************************************************)
EXTENDS TraceIO

CONSTANTS MonInit(_), Guard(_, _), Effect(_, _), Why(_, _)

VARIABLES l,      \* next line of Trace to consume
          st,     \* monitor state
          dead,   \* current scenario already rejected
          bad,    \* rejections so far
          nscen   \* scenarios seen

dvars == <<l, st, dead, bad, nscen>>

\* The rejections are collected in TLC register 2 (not in the state: a state that carries a growing list makes
\* fingerprinting quadratic in the number of rejections, e.g. with thousands of known-finding hits); `bad` counts them.
\* Trace validation always runs with one worker.
DInit == /\ TLCSet(2, <<>>) /\ l = 1 /\ st = [none |-> TRUE] /\ dead = TRUE /\ bad = 0 /\ nscen = 0

DNext ==
    /\ l <= Len(Trace)
    /\ l' = l + 1
    /\ LET e == Trace[l] IN
       IF e.ev = "reset"
         THEN /\ st' = MonInit(e) /\ dead' = FALSE /\ nscen' = nscen + 1 /\ bad' = bad
         ELSE IF dead THEN UNCHANGED <<st, dead, bad, nscen>>
         ELSE IF Guard(st, e)
                THEN /\ st' = Effect(st, e) /\ UNCHANGED <<dead, bad, nscen>>
                ELSE /\ dead' = TRUE /\ UNCHANGED <<st, nscen>>
                     /\ TLCSet(2, Append(TLCGet(2), [line |-> l, why |-> Why(st, e), ev |-> e]))
                     /\ bad' = bad + 1

DSpec == DInit /\ [][DNext]_dvars

\* evaluated as an invariant: writes the verdict file exactly when the whole trace was consumed
Report == (l = Len(Trace) + 1) =>
            ndJsonSerialize(OutFile, <<[summary |-> TRUE, events |-> Len(Trace), scenarios |-> nscen,
                                        rejected |-> bad]>> \o TLCGet(2))
=============================================================================
