------------------------------ MODULE PoolMon ------------------------------
(***************************************************************************)
(* Property-level monitor for C19 (task pool).  Events of one pool:        *)
(*   reset  id bound                                                       *)
(*   submit j          Go(j) is about to be called (before any Stop)       *)
(*   start j / end j   the task body begins / ends (also by panic)         *)
(*   k0 k              largest barrier of mutually waiting tasks a FRESH   *)
(*                     pool of this bound completes (measured by the driver)*)
(*   barrier k ok      after overload and idling, a barrier of k tasks     *)
(*                     completed (ok) or timed out                          *)
(*   stopcall          Stop() is about to be called                         *)
(*   quiesce           all Go calls returned and the pool had time to idle  *)
(***************************************************************************)
EXTENDS Integers, Sequences, FiniteSets, TLC

MonInit(e) == [bound |-> e.bound, submitted |-> {}, late |-> {}, started |-> {}, ended |-> {}, running |-> {},
               k0 |-> 0, stopping |-> FALSE, handed |-> {}, must |-> {}]

Guard(st, e) ==
    CASE e.ev = "submit" -> e.j \notin st.submitted \cup st.late
      [] e.ev = "start"  -> /\ e.j \in st.submitted \cup st.late        \* only submitted tasks run
                            /\ e.j \notin st.started                     \* at most once
                            /\ Cardinality(st.running) + 1 <= st.bound   \* within the bound
      [] e.ev = "end"    -> e.j \in st.running
      [] e.ev = "k0"     -> e.k >= 1 /\ e.k <= st.bound
      [] e.ev = "barrier" -> (e.k <= st.k0) => e.ok                      \* parallelism is not lost
      [] e.ev = "stopcall" -> TRUE
      [] e.ev = "quiesce" -> /\ st.running = {}
                             \* exactly once, nothing lost: without Stop every submitted task ran; with Stop
                             \* every task whose Go had RETURNED before Stop was called ran
                             /\ (IF st.stopping THEN st.must ELSE st.submitted) \subseteq st.ended
      [] e.ev = "panic" -> FALSE
      [] OTHER -> TRUE

Effect(st, e) ==
    CASE e.ev = "submit" -> IF st.stopping THEN [st EXCEPT !.late = @ \cup {e.j}]
                            ELSE [st EXCEPT !.submitted = @ \cup {e.j}]
      [] e.ev = "start"  -> [st EXCEPT !.started = @ \cup {e.j}, !.running = @ \cup {e.j}]
      [] e.ev = "end"    -> [st EXCEPT !.running = @ \ {e.j}, !.ended = @ \cup {e.j}]
      [] e.ev = "k0"     -> [st EXCEPT !.k0 = e.k]
      [] e.ev = "goret"  -> [st EXCEPT !.handed = @ \cup {e.j}]
      [] e.ev = "stopcall" -> [st EXCEPT !.stopping = TRUE, !.must = st.handed]
      [] OTHER -> st

Why(st, e) ==
    CASE e.ev = "start" /\ e.j \in st.started -> "task ran twice"
      [] e.ev = "start" /\ e.j \notin st.submitted \cup st.late -> "unknown task ran"
      [] e.ev = "start" -> "more tasks running at once than the configured bound"
      [] e.ev = "k0" -> "a fresh pool cannot run even one task / runs more than the bound"
      [] e.ev = "barrier" -> "parallelism lost after overload: mutually waiting tasks that a fresh pool runs together no longer run together"
      [] e.ev = "quiesce" /\ st.running # {} -> "task still running at quiescence"
      [] e.ev = "quiesce" -> "a task submitted before Stop never ran"
      [] e.ev = "panic" -> "a panic escaped from a pool goroutine (would crash the process)"
      [] OTHER -> "event not allowed"
=============================================================================
