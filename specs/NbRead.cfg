SPECIFICATION Spec
CONSTANTS
  Buf = 2
  Sends <- S1
  Fix <- AllFix
INVARIANTS TypeOK AtMostOneReadTask DeliveredIsPrefix NoStrandedInput CounterSane
PROPERTY AllDelivered TaskTerminates
CHECK_DEADLOCK FALSE
