-------------------------- MODULE WsDispatchTrace --------------------------
(***************************************************************************)
(* Conformance of recorded end-to-end executions (harness/cmd/wse2e) with   *)
(* the implementation-level model WsDispatch: every callback event of the   *)
(* trace has to be produced by an action of the model, internal steps of    *)
(* the model (parse, enqueue, peer gone, add) are inferred.  The highest    *)
(* trace line reached is kept in TLC register 1; a trace that is not fully  *)
(* explained is DRIFT of the model (reported in the evidence), never a      *)
(* verdict -- the verdict is WsOrderMon's.                                  *)
(***************************************************************************)
EXTENDS WsDispatch, TraceIO

VARIABLE l
tvars == <<vars, l>>

PathOf(e) == IF e.path = "poller" THEN "poller"
             ELSE IF e.path \in {"blkparser", "ownloop"} THEN "inline" ELSE "transfer"
Modelled == {"openb", "opene", "msgb", "msge", "closecb"}
Entry(e) == IF e.ev \in {"msgb", "msge"} THEN <<e.ev, e.seq + 1>> ELSE <<e.ev, 0>>

TInit == /\ TLCSet(1, 1) /\ l = 1 /\ path = "poller" /\ added = TRUE /\ opn = "no" /\ parsed = 0 /\ peergone = FALSE /\ closeq = FALSE
         /\ jobq = <<>> /\ running = -1 /\ inl = -1 /\ log = <<>>

Mark == TLCSet(1, IF TLCGet(1) < l + 1 THEN l + 1 ELSE TLCGet(1))

TReset == /\ l <= Len(Trace) /\ Trace[l].ev = "reset"
          /\ path' = PathOf(Trace[l]) /\ added' = (PathOf(Trace[l]) # "transfer")
          /\ opn' = "no" /\ parsed' = 0 /\ peergone' = FALSE /\ closeq' = FALSE
          /\ jobq' = <<>> /\ running' = -1 /\ inl' = -1 /\ log' = <<>>
          /\ l' = l + 1 /\ Mark
TOther == /\ l <= Len(Trace) /\ Trace[l].ev \notin Modelled \cup {"reset"}
          /\ l' = l + 1 /\ Mark /\ UNCHANGED vars
\* an end-game message after the violation / an unparsable number: not modelled
TIgnored == /\ l <= Len(Trace) /\ Trace[l].ev \in {"msgb", "msge"} /\ Trace[l].seq < 0
            /\ l' = l + 1 /\ Mark /\ UNCHANGED vars
TEvent == /\ l <= Len(Trace) /\ Trace[l].ev \in Modelled
          /\ (Trace[l].ev \in {"msgb", "msge"} => Trace[l].seq >= 0)
          /\ Next /\ log' = Append(log, Entry(Trace[l]))
          /\ l' = l + 1 /\ Mark
\* the end of a close job leaves no event behind
TSilent == /\ l <= Len(Trace) /\ Next /\ log' = log /\ l' = l

TNext == TReset \/ TOther \/ TIgnored \/ TEvent \/ TSilent
TraceSpec == TInit /\ [][TNext]_tvars
Reached == TLCGet(1)
Report == TRUE
Post == ndJsonSerialize(OutFile, <<[summary |-> TRUE, events |-> Len(Trace), reached |-> TLCGet(1) - 1]>>)
=============================================================================
