---------------------------- MODULE EngineLifeMC ----------------------------
EXTENDS EngineLife
Ord == <<"c1", "c2", "c3", "d1", "d2">>
C2 == {"c1", "c2"}
C1 == {"c1"}
C3 == {"c1", "c2", "c3"}
D2 == {"d1", "d2"}
P1 == {"c1"}
D1 == {"d1"}
None == {}
FixAll == {"noreset", "joinlisteners", "atomicadd"}
FixNoReset == {"noreset"}
FixAccept == {"noreset", "joinlisteners"}
FixNone == {}
=============================================================================
