------------------------------- MODULE NbRead -------------------------------
(***************************************************************************)
(* The asynchronous read gate of nbio.Conn (Conn.AsyncRead, conn_unix.go)  *)
(* in edge-triggered mode without one-shot, at the grain of the vrt         *)
(* runtime: one atomic operation, lock acquisition or read() per action.    *)
(*                                                                         *)
(* The poller counts readiness events in the atomic counter readEvents; the *)
(* first event starts ONE read task, a second event that arrives while the  *)
(* task runs is remembered (counter 2), further ones are dropped; the task   *)
(* reads until EAGAIN / a short read, then decrements the counter and goes   *)
(* round again if an event is still owed.                                   *)
(*                                                                         *)
(*   code before the repair ("gate_cas" \notin Fix):                        *)
(*     cnt := Add(+1); if cnt > 2 { Add(-1); return }; if cnt > 1 { return }  *)
(*   TLC finds that the poller's +1 ... -1 pair can interleave with two      *)
(*   decrements of the task so that the counter passes 0 downwards: the task *)
(*   then never sees 0 and reads an empty socket for ever (CounterSane,      *)
(*   TaskTerminates).  Repaired code: a CAS loop that never lets the counter  *)
(*   exceed 2, so nothing has to be undone.                                  *)
(***************************************************************************)
EXTENDS Integers, Sequences, FiniteSets, TLC

CONSTANTS Buf,        \* read buffer size
          Sends,      \* sequence of burst sizes the peer sends
          Fix         \* subset of {"gate_cas"}

VARIABLES krcv, edge, re, ppc, pold, tpc, sent, delivered, nsent, spawned, pin
vars == <<krcv, edge, re, ppc, pold, tpc, sent, delivered, nsent, spawned, pin>>

\* tpc: "none" (no task) | "rlock" | "rsys" | "dec"
Init == /\ krcv = 0 /\ edge = FALSE /\ re = 0 /\ ppc = "wait" /\ pold = 0 /\ tpc = "none" /\ sent = 0 /\ delivered = 0
        /\ nsent = 0 /\ spawned = 0 /\ pin = FALSE

(* ---- peer ---- *)
Send == /\ nsent < Len(Sends) /\ nsent' = nsent + 1
        /\ krcv' = krcv + Sends[nsent + 1] /\ sent' = sent + Sends[nsent + 1]
        /\ edge' = TRUE                                  \* every arrival raises a new edge
        /\ UNCHANGED <<re, ppc, pold, tpc, delivered, spawned, pin>>

(* ---- poller ---- *)
\* epoll_wait returns the edge (the event also carries EPOLLOUT: flush() first)
\* (the reported mask is the readiness AT THAT MOMENT: if the task has drained the socket meanwhile the event has no
\* EPOLLIN bit and the poller does not call AsyncRead)
PWait == /\ ppc = "wait" /\ edge /\ edge' = FALSE /\ ppc' = "flock" /\ pin' = (krcv > 0)
         /\ UNCHANGED <<krcv, re, pold, tpc, sent, delivered, nsent, spawned>>
\* flush(): Lock; nothing queued; Unlock
PFLock == /\ ppc = "flock" /\ tpc # "rsys"                \* (the read task holds the connection mutex across read())
          /\ ppc' = IF ~pin THEN "wait" ELSE IF "gate_cas" \in Fix THEN "load" ELSE "inc"
          /\ UNCHANGED <<krcv, edge, re, pold, tpc, sent, delivered, nsent, spawned, pin>>
\* --- code before the repair
PInc == /\ ppc = "inc" /\ re' = re + 1                   \* cnt := atomic.AddInt32(&readEvents, 1)
        /\ ppc' = IF re + 1 > 2 THEN "undo" ELSE IF re + 1 > 1 THEN "wait" ELSE "spawn"
        /\ UNCHANGED <<krcv, edge, pold, tpc, sent, delivered, nsent, spawned, pin>>
PUndo == /\ ppc = "undo" /\ re' = re - 1 /\ ppc' = "wait"
         /\ UNCHANGED <<krcv, edge, pold, tpc, sent, delivered, nsent, spawned, pin>>
\* --- repaired code: for { old := Load(); if old >= 2 return; if CAS(old, old+1) { if old > 0 return; break } }
PLoad == /\ ppc = "load" /\ pold' = re
         /\ ppc' = IF re >= 2 THEN "wait" ELSE "cas"
         /\ UNCHANGED <<krcv, edge, re, tpc, sent, delivered, nsent, spawned, pin>>
PCas == /\ ppc = "cas"
        /\ IF re = pold THEN /\ re' = pold + 1 /\ ppc' = IF pold > 0 THEN "wait" ELSE "spawn"
                        ELSE /\ re' = re /\ ppc' = "load"
        /\ UNCHANGED <<krcv, edge, pold, tpc, sent, delivered, nsent, spawned, pin>>
\* IOExecute(task)
PSpawn == /\ ppc = "spawn" /\ tpc = "none" /\ tpc' = "rlock" /\ ppc' = "wait" /\ spawned' = spawned + 1
          /\ UNCHANGED <<krcv, edge, re, pold, sent, delivered, nsent, pin>>

(* ---- the read task ---- *)
TRLock == /\ tpc = "rlock" /\ tpc' = "rsys"               \* ReadAndGetConn: Lock
          /\ UNCHANGED <<krcv, edge, re, ppc, pold, sent, delivered, nsent, spawned, pin>>
TRSys == /\ tpc = "rsys"                                  \* read(); Unlock; data callback; loop control
         /\ LET n == IF krcv < Buf THEN krcv ELSE Buf IN
            /\ krcv' = krcv - n /\ delivered' = delivered + n
            /\ tpc' = IF n = 0 THEN "dec" ELSE "rlock"    \* EAGAIN ends the round (the short-read test of this loop is dead code)
         /\ UNCHANGED <<edge, re, ppc, pold, sent, nsent, spawned, pin>>
TDec == /\ tpc = "dec" /\ re' = re - 1                    \* if atomic.AddInt32(&readEvents, -1) == 0 { return }
        /\ tpc' = IF re - 1 = 0 THEN "none" ELSE "rlock"
        /\ UNCHANGED <<krcv, edge, ppc, pold, sent, delivered, nsent, spawned, pin>>

Poller == PWait \/ PFLock \/ PInc \/ PUndo \/ PLoad \/ PCas \/ PSpawn
Task == TRLock \/ TRSys \/ TDec
Next == Send \/ Poller \/ Task
Spec == Init /\ [][Next]_vars /\ WF_vars(Poller) /\ WF_vars(Task)

TypeOK == re \in -2..3 /\ krcv >= 0
Bounded == re >= -1                                        \* state constraint for graph generation (unrepaired gate)
CounterSane == re >= 0                                     \* the gate counter never passes 0 downwards
AtMostOneReadTask == spawned >= 0 /\ (ppc = "spawn" => tpc = "none")
DeliveredIsPrefix == delivered <= sent /\ delivered + krcv = sent
NoStrandedInput == ~(krcv > 0 /\ tpc = "none" /\ ~edge /\ ppc = "wait")
AllDelivered == <>[](nsent = Len(Sends) => delivered = sent)
TaskTerminates == <>[](nsent = Len(Sends) => tpc = "none")   \* readers go idle: no spinning on an empty socket
=============================================================================
