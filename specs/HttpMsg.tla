------------------------------- MODULE HttpMsg -------------------------------
(***************************************************************************)
(* Generator-with-meaning for HTTP/1.x messages (RFC 7230 grammar,          *)
(* restricted to the forms on which nbhttp and net/http are documented to   *)
(* agree -- DESIGN.md appendix A.2).  A behaviour builds ONE message by a    *)
(* sequence of grammar choices; `wire` is its concrete token sequence        *)
(* ("CRLF" and "@n" = n payload bytes are rendered by the driver), `msg` is  *)
(* its MEANING: what a correct parser must deliver.  TLC enumerates every    *)
(* complete behaviour (the state graph is a tree of choices); the driver     *)
(* renders, pipelines and segments them.                                     *)
(***************************************************************************)
EXTENDS Integers, Sequences, FiniteSets, TLC

CONSTANTS Side,        \* "server" (requests) | "client" (responses)
          Rich         \* BOOLEAN: larger pools

VARIABLES stage, wire, msg, nh
vars == <<stage, wire, msg, nh>>

Methods  == IF Rich THEN {"GET", "POST", "PUT", "DELETE", "OPTIONS", "HEAD"} ELSE {"GET", "POST"}
Targets  == IF Rich THEN {"/", "/p", "/p?q=1&r=2", "/a/b/c.html"} ELSE {"/", "/p?q=1"}
Versions == {"HTTP/1.1", "HTTP/1.0"}
Statuses == IF Rich THEN {<<"200", "OK">>, <<"404", "Not Found">>, <<"500", "Internal Server Error">>, <<"201", "Created">>}
            ELSE {<<"200", "OK">>, <<"404", "Not Found">>}
\* header pool: <<name, optional whitespace before the value, value, optional whitespace after>>
HdrPool == <<
    <<"Host", " ", "example.com", "">>,
    <<"Accept", " ", "*/*", "">>,
    <<"X-Token", "", "abc-123", "">>,
    <<"X-Pad", "  ", "a b  c", " ">>,
    <<"Accept", " ", "text/html", "">>,              \* repeated field name
    <<"Connection", " ", "keep-alive", "">>,         \* (a later Connection: close line decides)
    <<"Connection", " ", "close", "">>,
    <<"X-Empty", " ", "", "">>,                      \* empty value, written with a space after the colon
    <<"x-lower", "\t", "v", "\t">>,
    <<"X-Last", "", "z", "">> >>
NPool == IF Rich THEN Len(HdrPool) ELSE 4
MaxHdrs == IF Rich THEN 3 ELSE 2
BodySizes == IF Rich THEN {0, 1, 5, 12, 17} ELSE {0, 5}
\* chunk patterns: sizes of the data chunks, hex rendering, optional chunk extension
ChunkPats == IF Rich THEN {<<<<5>>, <<"5">>>>, <<<<1, 4>>, <<"1", "4">>>>, <<<<10, 26>>, <<"A", "1a">>>>,
                           <<<<3, 3, 3>>, <<"3", "003", "3">>>>, <<<<15, 31>>, <<"f", "1F">>>>, <<<<>>, <<>>>>}
             ELSE {<<<<5>>, <<"5">>>>, <<<<1, 4>>, <<"1", "4">>>>}
Exts == IF Rich THEN {"", ";ext=v"} ELSE {""}
TrailerSets == IF Rich THEN {<<>>, <<<<"X-T1", "t1">>>>, <<<<"X-T1", "a b c">>, <<"X-T2", "z">>>>,
                             <<<<"x-checksum", "c1">>, <<"x-size", "9">>>>}       \* declared and sent in lower case
               ELSE {<<>>, <<<<"X-T1", "t1">>>>}

EmptyMsg == [method |-> "", target |-> "", proto |-> "", code |-> "", reason |-> "", headers |-> <<>>,
             body |-> 0, trailers |-> <<>>, framing |-> "none"]

Init == stage = "start" /\ wire = <<>> /\ msg = EmptyMsg /\ nh = 0

StartLine ==
    /\ stage = "start"
    /\ IF Side = "server"
         THEN \E m \in Methods, t \in Targets, v \in Versions :
                /\ wire' = <<m, " ", t, " ", v, "CRLF">>
                /\ msg' = [msg EXCEPT !.method = m, !.target = t, !.proto = v]
         ELSE \E v \in Versions, s \in Statuses :
                /\ wire' = <<v, " ", s[1], " ", s[2], "CRLF">>
                /\ msg' = [msg EXCEPT !.proto = v, !.code = s[1], !.reason = s[2]]
    /\ stage' = "hdrs" /\ nh' = 0

\* header fields are taken from the pool in increasing index order (no permutations of the same set)
AddHdr(i) ==
    /\ stage = "hdrs" /\ Len(msg.headers) < MaxHdrs /\ i > nh /\ i <= NPool
    /\ LET h == HdrPool[i] IN
       /\ wire' = wire \o <<h[1], ":", h[2], h[3], h[4], "CRLF">>
       /\ msg' = [msg EXCEPT !.headers = Append(@, <<h[1], h[3]>>)]
    /\ nh' = i /\ UNCHANGED stage

HasBody == IF Side = "server" THEN msg.method \in {"POST", "PUT"} ELSE TRUE

Frame ==
    /\ stage = "hdrs"
    /\ \/ /\ ~HasBody \/ Side = "server"          \* no framing header at all: no body
          /\ Side = "server"
          /\ wire' = wire \o <<"CRLF">> /\ msg' = msg
       \/ /\ HasBody
          /\ \E n \in BodySizes, ows \in (IF Rich THEN {"", " "} ELSE {""}) :
               /\ wire' = wire \o <<"Content-Length", ":", " ", ToString(n), ows, "CRLF", "CRLF", "@" \o ToString(n)>>
               /\ msg' = [msg EXCEPT !.body = n, !.framing = "cl"]
       \/ /\ HasBody /\ msg.proto = "HTTP/1.1"
          /\ \E p \in ChunkPats, x \in Exts, tr \in TrailerSets :
               LET sizes == p[1]  hexs == p[2]
                   Sum[k \in 0..Len(sizes)] == IF k = 0 THEN 0 ELSE Sum[k-1] + sizes[k]
                   Chunks[k \in 0..Len(sizes)] ==
                       IF k = 0 THEN <<>> ELSE Chunks[k-1] \o <<hexs[k], x, "CRLF", "@" \o ToString(sizes[k]), "CRLF">>
                   TrDecl == IF tr = <<>> THEN <<>>
                             ELSE <<"Trailer", ":", " ",
                                    IF Len(tr) = 1 THEN tr[1][1] ELSE tr[1][1] \o ", " \o tr[2][1], "CRLF">>
                   TrLines[k \in 0..Len(tr)] ==
                       IF k = 0 THEN <<>> ELSE TrLines[k-1] \o <<tr[k][1], ":", " ", tr[k][2], "CRLF">>
               IN /\ wire' = wire \o <<"Transfer-Encoding", ":", " ", "chunked", "CRLF">> \o TrDecl \o <<"CRLF">>
                              \o Chunks[Len(sizes)] \o <<"0", "CRLF">> \o TrLines[Len(tr)] \o <<"CRLF">>
                  /\ msg' = [msg EXCEPT !.body = Sum[Len(sizes)], !.framing = "chunked", !.trailers = tr]
    /\ stage' = "done" /\ UNCHANGED nh

Next == StartLine \/ (\E i \in 1..NPool : AddHdr(i)) \/ Frame
Spec == Init /\ [][Next]_vars
TypeOK == stage \in {"start", "hdrs", "done"}
Complete == stage = "done"
=============================================================================
