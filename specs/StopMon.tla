------------------------------- MODULE StopMon -------------------------------
(***************************************************************************)
(* Property-level monitor for C18, one engine life per scenario.            *)
(*   base goroutines fds        before the engine exists                    *)
(*   history ...                what preceded Stop (informative)            *)
(*   stopcall                                                               *)
(*   stopret returned opens closes   Stop / Shutdown returned within the    *)
(*                              bound; open and close notifications counted  *)
(*                              at that moment                               *)
(*   peers total stillopen      peers whose connection was not closed        *)
(*   after goroutines fds opens closes   after a settling time               *)
(*   -- replay leg (cooperative scheduler, model kernel) --                  *)
(*   quiesce stopdone threads   nothing is enabled any more: Stop returned?, *)
(*                              library threads that did not exit            *)
(*   simstate open notified     connections still registered / open, closes  *)
(*                              notified, at Stop's return                   *)
(***************************************************************************)
EXTENDS Integers, Sequences, FiniteSets, TLC

MonInit(e) == [core |-> IF "core" \in DOMAIN e THEN e.core ELSE TRUE, baseg |-> -1, basef |-> -1, called |-> FALSE, returned |-> FALSE]

Guard(st, e) ==
    CASE e.ev = "base"    -> TRUE
      [] e.ev = "stopret" -> /\ e.returned                              \* Stop always returns
                             /\ st.core => e.opens = e.closes            \* every close notification delivered before that
      [] e.ev = "peers"   -> e.stillopen = 0                            \* every managed connection is closed
      [] e.ev = "after"   -> /\ e.goroutines <= st.baseg                \* poller, listener, executor, timer goroutines released
                             /\ e.fds <= st.basef                       \* every descriptor the engine opened released
                             /\ e.opens = e.closes
      [] e.ev = "simret"  -> /\ e.stopdone
                             /\ e.registered = 0 /\ e.openfds = 0 /\ e.opens = e.closes
      [] e.ev = "quiesce" -> e.stopdone /\ e.alive = 0
      [] e.ev = "panic"   -> FALSE
      [] e.ev = "stuck"   -> FALSE
      [] OTHER -> TRUE

Effect(st, e) ==
    CASE e.ev = "base"     -> [st EXCEPT !.baseg = e.goroutines, !.basef = e.fds]
      [] e.ev = "stopcall" -> [st EXCEPT !.called = TRUE]
      [] e.ev = "stopret"  -> [st EXCEPT !.returned = TRUE]
      [] OTHER -> st

Why(st, e) ==
    CASE e.ev = "stopret" /\ ~e.returned -> "Stop did not return"
      [] e.ev = "stopret" -> "Stop returned before every close notification was delivered"
      [] e.ev = "peers" -> "a managed connection is still open after Stop"
      [] e.ev = "after" /\ e.goroutines > st.baseg -> "goroutines of the engine are still running after Stop"
      [] e.ev = "after" /\ e.fds > st.basef -> "descriptors opened by the engine are still open after Stop"
      [] e.ev = "after" -> "an opened connection never got its close notification"
      [] e.ev = "simret" /\ ~e.stopdone -> "Stop did not return"
      [] e.ev = "simret" /\ e.opens # e.closes -> "Stop returned before every close notification was delivered"
      [] e.ev = "simret" -> "a managed connection is still open after Stop"
      [] e.ev = "quiesce" /\ ~e.stopdone -> "Stop did not return"
      [] e.ev = "quiesce" -> "goroutines of the engine are still running after Stop"
      [] e.ev = "panic" -> "panic"
      [] e.ev = "stuck" -> "a library thread blocked outside the scheduler"
      [] OTHER -> "event not allowed"
=============================================================================
