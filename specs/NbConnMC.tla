----------------------------- MODULE NbConnMC -----------------------------
EXTENDS NbConn
W1 == {"w1"}
W2 == {"w1", "w2"}
\* programs (sizes of the Write calls); "o" = calls made inside the open callback
PG(o, w) == [t \in Writers \cup {"o"} |-> IF t = "o" THEN o ELSE w]
P1 == PG(<<>>, <<1, 3>>)
P2 == PG(<<3>>, <<1>>)
NoFix == {}
AllFix == {"unix_tail", "onopen_arm", "os_eagain_rearm", "os_peek_locked"}
=============================================================================
