------------------------------- MODULE WsCodec -------------------------------
(***************************************************************************)
(* RFC 6455 receiver reference + frame-sequence generator (C13), with no   *)
(* extension negotiated.  A behaviour appends frames to `frames`; the other *)
(* variables are what a conforming endpoint must have done after them:      *)
(* `delivered` (messages handed to the application, as <<type, length>>),   *)
(* `pongs` (payload lengths of the pongs it owes), `closereply` (it answered *)
(* a close frame with a close frame), `failed` (it must fail the connection; *)
(* nothing that contains the offending frame is delivered).  The rules are   *)
(* exactly those listed in the property statement (DESIGN.md appendix A.4).  *)
(* Frame = [fin, rsv, op, len, pl]; pl is a payload class:                   *)
(*   "ascii"  valid UTF-8            "bad"    invalid UTF-8                  *)
(*   "head"   valid text ending with the FIRST byte of a 2-byte code point   *)
(*   "tail"   the SECOND byte of that code point followed by valid text      *)
(*   "c<code>" close payload: 2-byte code + valid reason   "cbad": + invalid *)
(*   "c1"     close payload of length 1                                      *)
(***************************************************************************)
EXTENDS Integers, Sequences, FiniteSets, TLC

CONSTANTS MaxFrames, Ops, Rsvs, Lens, LegalCodes, IllegalCodes,
          Pls          \* payload classes to use ({} = all)

VARIABLES frames, inmsg, mlen, utf, delivered, pongs, closereply, failed, closed
vars == <<frames, inmsg, mlen, utf, delivered, pongs, closereply, failed, closed>>

IsControl(op) == op >= 8
Reserved(op) == op \in {3, 4, 5, 6, 7, 11, 12, 13, 14, 15}

Init == /\ frames = <<>> /\ inmsg = 0 /\ mlen = 0 /\ utf = "ok" /\ delivered = <<>> /\ pongs = <<>>
        /\ closereply = FALSE /\ failed = FALSE /\ closed = FALSE

\* UTF-8 state after a text payload of class pl (state: "ok" | "partial" | "bad")
UtfNext(s, pl, len) ==
    IF len = 0 THEN s
    ELSE CASE s = "bad" -> "bad"
           [] pl = "bad" -> "bad"
           [] pl = "head" -> IF s = "ok" THEN "partial" ELSE "bad"
           [] pl = "tail" -> IF s = "partial" THEN "ok" ELSE "bad"
           [] OTHER -> IF s = "ok" THEN "ok" ELSE "bad"          \* ascii after a dangling lead byte

Fail == /\ failed' = TRUE /\ UNCHANGED <<inmsg, mlen, utf, delivered, pongs, closereply, closed>>

Payloads(op, len) ==
    IF op = 8 THEN (IF len = 0 THEN {"ascii"} ELSE IF len = 1 THEN {"c1"}
                    ELSE {"c" \o ToString(c) : c \in LegalCodes \cup IllegalCodes} \cup {"cbad"})
    ELSE IF op \in {0, 1} THEN (IF len >= 2 THEN {"ascii", "bad", "head", "tail"} ELSE {"ascii", "bad"})
    ELSE {"ascii"}

CloseCodeOf(pl) == CHOOSE c \in LegalCodes \cup IllegalCodes : pl = "c" \o ToString(c)

AddFrame(f) ==
    /\ ~failed /\ ~closed /\ Len(frames) < MaxFrames
    /\ frames' = Append(frames, f)
    /\ IF f.rsv # 0 \/ Reserved(f.op) THEN Fail                              \* reserved bits / opcodes
       ELSE IF IsControl(f.op) THEN
            IF ~f.fin \/ f.len > 125 THEN Fail                               \* fragmented / over-long control frame
            ELSE IF f.op = 9 THEN /\ pongs' = Append(pongs, f.len)
                                  /\ UNCHANGED <<inmsg, mlen, utf, delivered, closereply, failed, closed>>
            ELSE IF f.op = 10 THEN UNCHANGED <<inmsg, mlen, utf, delivered, pongs, closereply, failed, closed>>
            ELSE \* close
                 IF f.len = 1 \/ f.pl = "cbad" THEN Fail
                 ELSE IF f.len >= 2 /\ CloseCodeOf(f.pl) \in IllegalCodes THEN Fail
                 ELSE /\ closereply' = TRUE /\ closed' = TRUE
                      /\ UNCHANGED <<inmsg, mlen, utf, delivered, pongs, failed>>
       ELSE IF f.op = 0 THEN
            IF inmsg = 0 THEN Fail                                            \* continuation without a start
            ELSE LET u == IF inmsg = 1 THEN UtfNext(utf, f.pl, f.len) ELSE "ok" IN
                 IF f.fin THEN
                      IF u # "ok" THEN Fail                                   \* invalid UTF-8 in a text message
                      ELSE /\ delivered' = Append(delivered, <<inmsg, mlen + f.len>>)
                           /\ inmsg' = 0 /\ mlen' = 0 /\ utf' = "ok"
                           /\ UNCHANGED <<pongs, closereply, failed, closed>>
                 ELSE /\ mlen' = mlen + f.len /\ utf' = u          \* (an endpoint MAY fail early on utf = "bad")
                      /\ UNCHANGED <<inmsg, delivered, pongs, closereply, failed, closed>>
       ELSE \* text / binary
            IF inmsg # 0 THEN Fail                                            \* new data frame inside a fragmented message
            ELSE LET u == IF f.op = 1 THEN UtfNext("ok", f.pl, f.len) ELSE "ok" IN
                 IF f.fin THEN
                      IF u # "ok" THEN Fail
                      ELSE /\ delivered' = Append(delivered, <<f.op, f.len>>)
                           /\ UNCHANGED <<inmsg, mlen, utf, pongs, closereply, failed, closed>>
                 ELSE /\ inmsg' = f.op /\ mlen' = f.len /\ utf' = u
                      /\ UNCHANGED <<delivered, pongs, closereply, failed, closed>>

Allowed(op, len) == IF Pls = {} THEN Payloads(op, len) ELSE Payloads(op, len) \cap Pls
Next == \E fin \in BOOLEAN, rsv \in Rsvs, op \in Ops, len \in Lens :
          \E pl \in Allowed(op, len) :
             AddFrame([fin |-> fin, rsv |-> rsv, op |-> op, len |-> len, pl |-> pl])
Spec == Init /\ [][Next]_vars
TypeOK == Len(frames) <= MaxFrames
\* an endpoint that validates UTF-8 incrementally may already have failed the connection
MayFailEarly == inmsg = 1 /\ utf = "bad"
=============================================================================
