------------------------------- MODULE HttpConn -------------------------------
(***************************************************************************)
(* One HTTP/1.x connection as seen by a pipelining client (C10): the        *)
(* history of requests it sends, how they are batched into writes, and the  *)
(* MEANING of the history: which request is the last one the server may     *)
(* answer before it has to close the connection (Connection: close, or      *)
(* HTTP/1.0 without keep-alive), or that it must keep the connection open.  *)
(* TLC's simulator samples histories; the design invariants are checked on  *)
(* the small exhaustive configuration.                                      *)
(***************************************************************************)
EXTENDS Integers, Sequences, FiniteSets, TLC

CONSTANTS MaxReqs, ReqSizes, RespSizes

VARIABLES reqs,       \* sequence of [ver, conn, post, reqsize, respsize, flush]
          closeafter, \* 0 = the server must keep the connection open, k = it must close after answering request k
          done
vars == <<reqs, closeafter, done>>

Init == reqs = <<>> /\ closeafter = 0 /\ done = FALSE

Dictates(r) == \/ r.conn = "close"
               \/ (r.ver = "1.0" /\ r.conn # "keep-alive")

\* the client sends one more request (flush = it is written separately, after the answer to the previous one
\* arrived; FALSE = pipelined in the same write as its predecessor)
Send(r) == /\ ~done /\ closeafter = 0 /\ Len(reqs) < MaxReqs
           /\ reqs' = Append(reqs, r)
           /\ closeafter' = IF Dictates(r) THEN Len(reqs) + 1 ELSE 0
           /\ UNCHANGED done
Stop == ~done /\ Len(reqs) > 0 /\ done' = TRUE /\ UNCHANGED <<reqs, closeafter>>

Next == \/ \E v \in {"1.1", "1.0"}, c \in {"", "close", "keep-alive"}, p \in BOOLEAN, q \in ReqSizes, s \in RespSizes, f \in BOOLEAN :
             Send([ver |-> v, conn |-> c, post |-> p, reqsize |-> IF p THEN q ELSE 0, respsize |-> s, flush |-> f])
        \/ Stop
Spec == Init /\ [][Next]_vars

TypeOK == Len(reqs) <= MaxReqs
\* nothing is sent behind a request that makes the server close
NothingBehindClose == closeafter # 0 => closeafter = Len(reqs)
CloseIffDictated == (closeafter # 0) <=> (Len(reqs) > 0 /\ Dictates(reqs[Len(reqs)]))
=============================================================================
