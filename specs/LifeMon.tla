------------------------------- MODULE LifeMon -------------------------------
(***************************************************************************)
(* Property-level monitor for C03 (connection life cycle), one connection   *)
(* per scenario.  Events:                                                   *)
(*   open                  the open notification                            *)
(*   cause c               a termination cause was set in motion: the peer  *)
(*                         closed ("eof"), a write was made to fail         *)
(*                         ("werr"), a deadline / overflow / Stop (named)   *)
(*   closecall t c         thread t is about to call Close/CloseWithError   *)
(*                         with cause c ; closeret t: it returned           *)
(*   call sid op / ret sid n err   Write/Writev/Sendfile (as in StreamMon)   *)
(*   exec ok               Execute returned ok                              *)
(*   onclose err           the close notification with its error            *)
(*   quiesce closed fdcloses badsys                                         *)
(*   dial id / dialcb id err connected    DialAsync and its callback; connected *)
(*                         = the socket really is connected (driver probe)  *)
(*   dialend id            the driver stopped waiting for the callback      *)
(***************************************************************************)
EXTENDS Integers, Sequences, FiniteSets, TLC

MonInit(e) == [opened |-> FALSE, nclose |-> 0, causes |-> {}, toolate |-> {}, anyret |-> FALSE,
               lateops |-> {}, dials |-> {}, dialcbs |-> {}, sim |-> IF "sim" \in DOMAIN e THEN e.sim ELSE FALSE]

Guard(st, e) ==
    CASE e.ev = "onclose" -> /\ st.opened                                   \* never before the open notification
                             /\ st.nclose = 0                               \* exactly once
                             /\ e.err \in st.causes                         \* a cause that was really set in motion ...
                             /\ e.err \notin st.toolate                     \* ... before the connection was closed: the first one
      [] e.ev = "ret" -> (e.sid \in st.lateops) => e.err = "closed"         \* after Close returned: closed indication
      [] e.ev = "exec" -> st.anyret => ~e.ok
      [] e.ev = "quiesce" -> /\ (e.closed => (st.nclose = 1 /\ (st.sim => e.fdcloses = 1)))
                             /\ (~e.closed => st.nclose = 0)
                             /\ (st.anyret => e.closed)                     \* Close is effective
                             /\ (("expect" \in DOMAIN e /\ e.expect) => e.closed)   \* whatever ends it: it IS closed and notified
                             /\ e.badsys = 0                                \* the descriptor is not touched after close
      [] e.ev = "dialcb" -> /\ e.id \in st.dials /\ e.id \notin st.dialcbs  \* outcome reported exactly once
                            /\ (e.err = "nil" => e.connected)               \* success only if really established
      [] e.ev = "dialend" -> e.id \in st.dialcbs                            \* ... and it IS reported
      [] e.ev = "panic" -> FALSE
      [] OTHER -> TRUE

Effect(st, e) ==
    CASE e.ev = "open" -> [st EXCEPT !.opened = TRUE]
      \* a cause is "too late" only if it was FIRST set in motion after some Close had returned
      [] e.ev = "cause" -> [st EXCEPT !.causes = @ \cup {e.c},
                                      !.toolate = IF st.anyret /\ e.c \notin st.causes THEN @ \cup {e.c} ELSE @]
      [] e.ev = "closecall" -> [st EXCEPT !.causes = @ \cup {e.c},
                                          !.toolate = IF st.anyret /\ e.c \notin st.causes THEN @ \cup {e.c} ELSE @]
      [] e.ev = "closeret" -> [st EXCEPT !.anyret = TRUE]
      [] e.ev = "call" -> IF st.anyret THEN [st EXCEPT !.lateops = @ \cup {e.sid}] ELSE st
      [] e.ev = "onclose" -> [st EXCEPT !.nclose = @ + 1]
      [] e.ev = "dial" -> [st EXCEPT !.dials = @ \cup {e.id}]
      [] e.ev = "dialcb" -> [st EXCEPT !.dialcbs = @ \cup {e.id}]
      [] OTHER -> st

Why(st, e) ==
    CASE e.ev = "onclose" /\ ~st.opened -> "close notification before the open notification"
      [] e.ev = "onclose" /\ st.nclose > 0 -> "more than one close notification"
      [] e.ev = "onclose" /\ e.err \notin st.causes -> "close notification reports an error that is not the cause of the close"
      [] e.ev = "onclose" -> "close notification does not report the first cause"
      [] e.ev = "ret" -> "operation on a connection whose Close had returned did not fail with the closed indication"
      [] e.ev = "exec" -> "Execute returned true after Close had returned"
      [] e.ev = "quiesce" /\ e.closed /\ st.nclose = 0 -> "connection closed but no close notification"
      [] e.ev = "quiesce" /\ e.closed /\ st.nclose = 1 -> "descriptor not closed exactly once"
      [] e.ev = "quiesce" /\ st.nclose > 0 /\ ~e.closed -> "close notification for a connection that is not closed"
      [] e.ev = "quiesce" /\ e.badsys # 0 -> "syscall on the descriptor after it was closed"
      [] e.ev = "quiesce" /\ st.anyret -> "Close returned but the connection is not closed"
      [] e.ev = "quiesce" -> "a termination cause (peer close / reset / failed write) did not close the connection"
      [] e.ev = "dialcb" /\ e.id \in st.dialcbs -> "dial outcome reported more than once"
      [] e.ev = "dialcb" /\ e.err = "nil" -> "asynchronous dial reported success although the connection was not established"
      [] e.ev = "dialcb" -> "dial callback for an unknown dial"
      [] e.ev = "dialend" -> "asynchronous dial never reported its outcome"
      [] e.ev = "panic" -> "a panic escaped from a library goroutine"
      [] OTHER -> "event not allowed"
=============================================================================
