------------------------------- MODULE HttpMon -------------------------------
(***************************************************************************)
(* Property-level monitors for the HTTP/1.x parser (one case per scenario): *)
(*  C06  whole evs err ; cut cuts evs err      every segmentation yields    *)
(*       the same events and the same rejection as the one-piece run        *)
(*  C07  count nbio ref spec err ; msg k nbio ref spec hasref hasnbio       *)
(*       on messages where net/http (ref) agrees with the spec's meaning,   *)
(*       what nbhttp delivers equals it, incl. the message boundary offset  *)
(*  C08  feed n retained ms err ; cbaftererr ; body total ; end ...         *)
(***************************************************************************)
EXTENDS Integers, Sequences, FiniteSets, TLC

MonInit(e) == [focus |-> e.focus, evs |-> <<>>, err |-> "", haswhole |-> FALSE,
               readlimit |-> IF "readlimit" \in DOMAIN e THEN e.readlimit ELSE 0,
               maxbody |-> IF "maxbody" \in DOMAIN e THEN e.maxbody ELSE 0,
               mustreject |-> IF "mustreject" \in DOMAIN e THEN e.mustreject ELSE FALSE,
               okbefore |-> IF "okbefore" \in DOMAIN e THEN e.okbefore ELSE 0,
               outside |-> 0, maxn |-> 0]

InDomain(e) == e.hasref /\ e.ref = e.spec

Guard(st, e) ==
    CASE e.ev = "whole" -> TRUE
      [] e.ev = "cut"   -> st.haswhole /\ e.evs = st.evs /\ e.err = st.err
      [] e.ev = "count" -> (e.ref = e.spec) => (e.nbio = e.ref /\ e.err = "")
      [] e.ev = "msg"   -> InDomain(e) => (e.hasnbio /\ e.nbio = e.ref)
      [] e.ev = "feed"  -> /\ e.ms <= 1000
                           /\ (st.readlimit > 0 => e.retained <= st.readlimit + (IF e.n > st.maxn THEN e.n ELSE st.maxn))
      [] e.ev = "cbaftererr" -> FALSE
      [] e.ev = "body"  -> st.maxbody > 0 => e.total <= st.maxbody
      [] e.ev = "end"   -> /\ e.panics = 0
                           /\ (st.mustreject => (e.rejected /\ e.completed = st.okbefore))
      [] OTHER -> TRUE

Effect(st, e) ==
    CASE e.ev = "whole" -> [st EXCEPT !.evs = e.evs, !.err = e.err, !.haswhole = TRUE]
      [] e.ev = "msg" -> IF InDomain(e) THEN st ELSE [st EXCEPT !.outside = @ + 1]
      [] e.ev = "feed" -> [st EXCEPT !.maxn = IF e.n > @ THEN e.n ELSE @]
      [] OTHER -> st

Why(st, e) ==
    CASE e.ev = "cut" /\ e.err # st.err -> "segmentation changes whether the stream is rejected"
      [] e.ev = "cut" -> "segmentation changes the parse events"
      [] e.ev = "count" -> "nbhttp delivers a different number of messages than net/http (or rejects a well-formed stream)"
      [] e.ev = "msg" /\ ~e.hasnbio -> "message delivered by net/http is missing in nbhttp"
      [] e.ev = "msg" /\ e.nbio.offset # e.ref.offset -> "message boundary at a different offset than net/http"
      [] e.ev = "msg" /\ e.nbio.body # e.ref.body -> "body differs from net/http"
      [] e.ev = "msg" /\ e.nbio.headers # e.ref.headers -> "header multimap differs from net/http"
      [] e.ev = "msg" /\ e.nbio.trailers # e.ref.trailers -> "trailers differ from net/http"
      [] e.ev = "msg" /\ e.nbio.close # e.ref.close -> "connection-close decision differs from net/http"
      [] e.ev = "msg" /\ e.nbio.status # e.ref.status -> "status text differs from net/http"
      [] e.ev = "msg" -> "request line / status line fields differ from net/http"
      [] e.ev = "feed" /\ e.ms > 1000 -> "Parse call took longer than 1 s"
      [] e.ev = "feed" -> "bytes retained for an incomplete message exceed ReadLimit plus one read"
      [] e.ev = "cbaftererr" -> "callback or handler ran after Parse had returned an error"
      [] e.ev = "body" -> "body larger than MaxHTTPBodySize delivered"
      [] e.ev = "end" /\ e.panics # 0 -> "Parse panicked (recovered and logged)"
      [] e.ev = "end" /\ ~e.rejected -> "malformed framing metadata accepted instead of rejected"
      [] e.ev = "end" -> "a message containing / following the malformed element was delivered"
      [] OTHER -> "event not allowed"
=============================================================================
