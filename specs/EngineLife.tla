----------------------------- MODULE EngineLife -----------------------------
(***************************************************************************)
(* Implementation-level specification of the life of an nbio engine        *)
(* (engine.go Stop, engine_unix.go Start / DialAsync, poller_epoll.go       *)
(* start / acceptorLoop / readWriteLoop / stop / addConn / addDialer) and   *)
(* of the HTTP engine's stop path (nbhttp/engine.go listen / Stop), at the  *)
(* grain of the steps whose order decides the property:                     *)
(*                                                                         *)
(*  starter   Start: creates the loops (goroutines not yet running)         *)
(*  loop l    LBegin: the goroutine starts running (unfixed: clears the     *)
(*            shutdown flag); acceptor: LAccept takes a pending connection  *)
(*            from the listener, LRegister runs OnOpen (wgConn+1) and puts  *)
(*            it into the table; LExit when the flag is set and the         *)
(*            listener is closed;  event loop: LExit when flagged and woken  *)
(*  dialer    DStart (wgConn+1) / DRegister: DialAsync or AddConn from a    *)
(*            user goroutine                                                *)
(*  peer      PClose c: the connection ends by itself (close notification   *)
(*            queued, wgConn-1 when delivered)                              *)
(*  stopper   SListeners (flag + close listeners), [SJoin: wait for the     *)
(*            acceptors], SSnapshot (collect the table, release the initial  *)
(*            wgConn token), SCloseAll, SWait (wgConn = 0), SPollers (flag +  *)
(*            wake), SJoinAll (all loops exited), done                       *)
(*                                                                         *)
(* Fix \subseteq {"noreset", "joinlisteners", "atomicadd"} selects the       *)
(* repaired behaviour; the pinned tree is Fix = {}.                          *)
(***************************************************************************)
EXTENDS Integers, Sequences, FiniteSets, TLC

CONSTANTS Order,        \* all connection names in descriptor order (the order in which Stop walks the table)
          Conns,        \* connections that may be accepted
          PreOpen,      \* \subseteq Conns: accepted and registered before Stop can begin
          Dials,        \* connections added by a user goroutine (DialAsync / AddConn)
          Fix

Loops == {"acc", "ev"}
All == Conns \cup Dials

VARIABLES lpc,        \* loop -> "new" | "run" | "got" | "exited"
          flag,       \* loop -> shutdown flag
          lclosed,    \* listener closed
          woken,      \* eventfd written
          pending,    \* connections completed by the kernel, not yet accepted
          inhand,     \* connection the acceptor has accepted and not yet registered
          table,      \* registered connections (open)
          state,      \* conn -> "none" | "open" | "closed" | "refused"
          opened, notified,     \* notification counters
          wg,         \* wgConn
          spc,        \* stopper pc
          aq,         \* the engine's asynchronous queue (timer.Async): FIFO of <<"c", conn>> (Stop's close call) and
                      \* <<"n", conn>> (close notification), executed one at a time by its drainer goroutine
          dpc,        \* dial -> "idle" | "added" | "done"
          stopped,    \* engine refuses additions (Fix atomicadd)
          misuse      \* ghost: wgConn.Add after Wait returned / counter below zero
vars == <<lpc, flag, lclosed, woken, pending, inhand, table, state, opened, notified, wg, spc, aq, dpc, stopped, misuse>>

Init == /\ lpc = [l \in Loops |-> "new"] /\ flag = [l \in Loops |-> FALSE]
        /\ lclosed = FALSE /\ woken = FALSE
        /\ pending = Conns \ PreOpen /\ inhand = "none"
        /\ table = PreOpen /\ state = [c \in All |-> IF c \in PreOpen THEN "open" ELSE "none"]
        /\ opened = Cardinality(PreOpen) /\ notified = 0 /\ wg = 1 + Cardinality(PreOpen)
        /\ spc = "idle" /\ aq = <<>> /\ dpc = [d \in Dials |-> "idle"] /\ stopped = FALSE /\ misuse = FALSE

Waited == spc \in {"pollers", "joinall", "done"}          \* wgConn.Wait has returned

(* ---- loops ---- *)
LBegin(l) == /\ lpc[l] = "new" /\ lpc' = [lpc EXCEPT ![l] = "run"]
             /\ flag' = IF "noreset" \in Fix THEN flag ELSE [flag EXCEPT ![l] = FALSE]
             /\ UNCHANGED <<lclosed, woken, pending, inhand, table, state, opened, notified, wg, spc, aq, dpc, stopped, misuse>>

LAccept == /\ lpc["acc"] = "run" /\ ~flag["acc"] /\ pending # {} /\ ~lclosed
           /\ LET c == SelectSeq(Order, LAMBDA x : x \in pending)[1] IN       \* the listen queue is FIFO
                pending' = pending \ {c} /\ inhand' = c
           /\ lpc' = [lpc EXCEPT !["acc"] = "got"]
           /\ UNCHANGED <<flag, lclosed, woken, table, state, opened, notified, wg, spc, aq, dpc, stopped, misuse>>

LRegister == /\ lpc["acc"] = "got"
             /\ table' = table \cup {inhand} /\ state' = [state EXCEPT ![inhand] = "open"]
             /\ opened' = opened + 1 /\ wg' = wg + 1 /\ misuse' = (misuse \/ Waited)
             /\ inhand' = "none" /\ lpc' = [lpc EXCEPT !["acc"] = "run"]
             /\ UNCHANGED <<flag, lclosed, woken, pending, notified, spc, aq, dpc, stopped>>

\* the accept loop leaves when it sees the flag (Accept fails once the listener is closed);
\* the event loop leaves when it sees the flag after a wake-up
LExit(l) == /\ lpc[l] = "run" /\ flag[l]
            /\ IF l = "acc" THEN lclosed ELSE woken
            /\ lpc' = [lpc EXCEPT ![l] = "exited"]
            /\ UNCHANGED <<flag, lclosed, woken, pending, inhand, table, state, opened, notified, wg, spc, aq, dpc, stopped, misuse>>

(* ---- user goroutine adding a connection ---- *)
Before(a, b) == \E i, j \in 1..Len(Order) : Order[i] = a /\ Order[j] = b /\ i < j
DAdd(d) == /\ dpc[d] = "idle" /\ lpc["ev"] # "new"
           /\ \A e \in Dials : Before(e, d) => dpc[e] # "idle"      \* (symmetry: additions happen in name order)
           /\ IF "atomicadd" \in Fix /\ stopped
                THEN /\ state' = [state EXCEPT ![d] = "refused"] /\ dpc' = [dpc EXCEPT ![d] = "done"]
                     /\ UNCHANGED <<table, opened, wg, misuse>>
                ELSE /\ table' = table \cup {d} /\ state' = [state EXCEPT ![d] = "open"]
                     /\ opened' = opened + 1 /\ wg' = wg + 1 /\ misuse' = (misuse \/ Waited)
                     /\ dpc' = [dpc EXCEPT ![d] = "done"]
           /\ UNCHANGED <<lpc, flag, lclosed, woken, pending, inhand, notified, spc, aq, stopped>>

(* ---- a connection ends: by its peer, or closed by Stop; the notification goes through the asynchronous queue ---- *)
CloseConn(c, q) == /\ state' = [state EXCEPT ![c] = "closed"] /\ table' = table \ {c}
                   /\ aq' = Append(q, <<"n", c>>)
PClose(c) == /\ state[c] = "open" /\ lpc["ev"] = "run"       \* the event loop sees the hang-up
             /\ CloseConn(c, aq)
             /\ UNCHANGED <<lpc, flag, lclosed, woken, pending, inhand, opened, notified, wg, spc, dpc, stopped, misuse>>
\* the drainer of the asynchronous queue executes its head
ARun == /\ aq # <<>>
        /\ LET j == Head(aq) IN
           IF j[1] = "c"
             THEN /\ IF state[j[2]] = "open" THEN CloseConn(j[2], Tail(aq))
                                             ELSE aq' = Tail(aq) /\ UNCHANGED <<state, table>>
                  /\ UNCHANGED <<notified, wg>>
             ELSE /\ notified' = notified + 1 /\ wg' = wg - 1 /\ aq' = Tail(aq) /\ UNCHANGED <<state, table>>
        /\ UNCHANGED <<lpc, flag, lclosed, woken, pending, inhand, opened, spc, dpc, stopped, misuse>>

(* ---- Stop ---- *)
SListeners == /\ spc = "idle" /\ lpc["acc"] # "x"
              /\ flag' = [flag EXCEPT !["acc"] = TRUE] /\ lclosed' = TRUE
              /\ spc' = IF "joinlisteners" \in Fix THEN "join" ELSE "snap"
              /\ UNCHANGED <<lpc, woken, pending, inhand, table, state, opened, notified, wg, aq, dpc, stopped, misuse>>
SJoin == /\ spc = "join" /\ lpc["acc"] = "exited" /\ spc' = "snap"
         /\ UNCHANGED <<lpc, flag, lclosed, woken, pending, inhand, table, state, opened, notified, wg, aq, dpc, stopped, misuse>>
\* collect the table (in descriptor order) and submit one close call per connection to the asynchronous queue
SSnapshot == /\ spc = "snap" /\ wg' = wg - 1 /\ stopped' = TRUE /\ spc' = "closeall"
             /\ aq' = aq \o [i \in 1..Len(SelectSeq(Order, LAMBDA c : c \in table)) |->
                                <<"c", SelectSeq(Order, LAMBDA c : c \in table)[i]>>]
             /\ UNCHANGED <<lpc, flag, lclosed, woken, pending, inhand, table, state, opened, notified, dpc, misuse>>
SWait == /\ spc = "closeall" /\ wg = 0 /\ spc' = "pollers"
         /\ UNCHANGED <<lpc, flag, lclosed, woken, pending, inhand, table, state, opened, notified, wg, aq, dpc, stopped, misuse>>
SPollers == /\ spc = "pollers" /\ flag' = [flag EXCEPT !["ev"] = TRUE] /\ woken' = TRUE /\ spc' = "joinall"
            /\ UNCHANGED <<lpc, lclosed, pending, inhand, table, state, opened, notified, wg, aq, dpc, stopped, misuse>>
SJoinAll == /\ spc = "joinall" /\ \A l \in Loops : lpc[l] = "exited" /\ spc' = "done"
            /\ UNCHANGED <<lpc, flag, lclosed, woken, pending, inhand, table, state, opened, notified, wg, aq, dpc, stopped, misuse>>

Next == \/ \E l \in Loops : LBegin(l) \/ LExit(l)
        \/ LAccept \/ LRegister
        \/ \E d \in Dials : DAdd(d)
        \/ \E c \in All : PClose(c)
        \/ ARun
        \/ SListeners \/ SJoin \/ SSnapshot \/ SWait \/ SPollers \/ SJoinAll
Spec == Init /\ [][Next]_vars /\ WF_vars(Next)

(* ---- properties ---- *)
StopReturns == <>(spc = "done")
\* at Stop's return: nothing open, every open notified
AllClosedAtReturn == spc = "done" => (table = {} /\ \A c \in All : state[c] # "open")
AllNotifiedAtReturn == spc = "done" => opened = notified
\* (what is added afterwards is refused or would be a zombie)
NoZombie == [](spc = "done" => [](\A c \in All : state[c] # "open"))
WaitGroupDiscipline == ~misuse /\ wg >= 0
TypeOK == /\ wg \in -1..(2 + Cardinality(All)) /\ spc \in {"idle", "join", "snap", "closeall", "pollers", "joinall", "done"}
=============================================================================
