------------------------------ MODULE NbConn ------------------------------
(***************************************************************************)
(* Implementation-level specification of the write path of nbio.Conn on    *)
(* linux/epoll (conn_unix.go, poller_epoll.go) together with the kernel     *)
(* objects it talks to (stream socket send buffer, epoll registration).    *)
(*                                                                         *)
(* Grain: one action = one step of a library thread under the vrt runtime: *)
(* "perform the operation the thread is parked at and run to the next      *)
(* yield point".  Yield points: Lock of the connection mutex, every         *)
(* syscall on the socket / epoll descriptor.  The code that follows an      *)
(* Unlock is a separate step only where it reads shared state (the          *)
(* unlocked look at the write queue in ResetPollerEvent).                   *)
(*                                                                         *)
(* Threads:  writers W (Conn.Write / Writev / Sendfile from goroutines),     *)
(*           "o" the goroutine that adds the connection (OnOpen callback,   *)
(*               optionally writing inside it, then EPOLL_CTL_ADD),         *)
(*           "p" the poller (epoll_wait; flush; read loop; one-shot re-arm).*)
(* Environment: the peer reads (PeerRead) and sends (PeerSend).             *)
(*                                                                         *)
(* The kernel part mirrors /verif/shims/vsys (the model kernel the replay   *)
(* runs against) one-to-one.  Behaviour of the code that deviates from the  *)
(* intended design is kept, switched by membership in Fix.                  *)
(***************************************************************************)
EXTENDS Integers, Sequences, FiniteSets, TLC

CONSTANTS Mode,        \* "LT" | "ET" | "OS"
          Transport,   \* "tcp" | "unix"
          SndCap,      \* kernel send-buffer capacity
          MaxWB,       \* MaxWriteBufferSize (0 = unlimited)
          Writers,     \* set of writer thread names
          Prog,        \* [Writers \cup {"o"} -> Seq(Nat)] sizes of the Write calls of each thread
          MaxIn,       \* how many times the peer sends one byte
          RdBuf,       \* read buffer size
          MaxRead,     \* MaxConnReadTimesPerEventLoop
          Fix          \* subset of {"unix_tail", "onopen_arm", "os_eagain_rearm", "os_peek_locked"}:
                       \* the repairs made to the tree ("fix:" commits); Fix = all of them is the code as
                       \* it is now, leaving one out is the code before that repair

ASSUME ("os_eagain_rearm" \in Fix) => ("os_peek_locked" \in Fix)

Coalesce == 65536      \* maxWriteCacheOrFlushSize

VARIABLES
    \* ---- connection (user space)
    wl,        \* write queue: sequence of [len, off]  (buffer length incl. the part already sent)
    left, wadded, closed, intable,
    mux,       \* holder of the connection mutex or "none"
    \* ---- kernel
    reg,       \* [on, in, out]  epoll registration (interest)
    dis,       \* one-shot: disabled until the next EPOLL_CTL_MOD
    rdy,       \* item is on the epoll ready list
    nospace,   \* SOCK_NOSPACE
    kfill,     \* bytes in the send buffer
    inq,       \* bytes readable
    fdclosed,
    \* ---- threads
    pc,        \* [Threads -> pc]
    cur,       \* [Threads -> size of the call in progress]
    done,      \* [Threads -> number of calls completed]
    pev,       \* events the poller is handling
    rdcnt,     \* reads done in the current read loop
    peek,      \* result of the unlocked look at the queue
    sent,      \* how many bytes the peer still may send
    \* ---- history / ghost
    acc,       \* bytes reported accepted
    handed,    \* bytes handed to the kernel
    lost,      \* bytes accepted, neither queued nor handed
    ovf        \* an overflow error was returned

vars == <<wl, left, wadded, closed, intable, mux, reg, dis, rdy, nospace, kfill, inq, fdclosed,
          pc, cur, done, pev, rdcnt, peek, sent, acc, handed, lost, ovf>>

Threads == Writers \cup {"o", "p"}
Min(a, b) == IF a < b THEN a ELSE b
room == SndCap - kfill
Remaining(e) == e.len - e.off
SumQ(s) == IF s = <<>> THEN 0
           ELSE LET F[i \in 0..Len(s)] == IF i = 0 THEN 0 ELSE F[i-1] + Remaining(s[i]) IN F[Len(s)]

Init ==
    /\ wl = <<>> /\ left = 0 /\ wadded = FALSE /\ closed = FALSE /\ intable = FALSE /\ mux = "none"
    /\ reg = [on |-> FALSE, in |-> FALSE, out |-> FALSE] /\ dis = FALSE /\ rdy = FALSE
    /\ nospace = FALSE /\ kfill = 0 /\ inq = 0 /\ fdclosed = FALSE
    /\ pc = [t \in Threads |-> IF t = "p" THEN "wait"
                                ELSE IF t = "o" THEN (IF Len(Prog["o"]) > 0 THEN "idle" ELSE "oadd")
                                ELSE "blocked"]
    /\ cur = [t \in Threads |-> 0] /\ done = [t \in Threads |-> 0]
    /\ pev = {} /\ rdcnt = 0 /\ peek = FALSE /\ sent = MaxIn
    /\ acc = 0 /\ handed = 0 /\ lost = 0 /\ ovf = FALSE

(* ------------------------------- kernel ------------------------------- *)
Level == (IF inq > 0 THEN {"in"} ELSE {}) \cup (IF room > 0 THEN {"out"} ELSE {})
Interest(r) == (IF r.in THEN {"in"} ELSE {}) \cup (IF r.out THEN {"out"} ELSE {})
HasReady == rdy /\ reg.on /\ ~dis /\ (Level \cap Interest(reg)) # {}

\* epoll_ctl with interest set r (op ADD or MOD already resolved by the caller): polls the item
CtlEffect(r) ==
    /\ reg' = r /\ dis' = FALSE
    /\ rdy' = (rdy \/ (Level \cap Interest(r)) # {})
    /\ nospace' = (nospace \/ (r.out /\ room = 0))

\* what poller.setRead / setReadWrite do for op = MOD in the three modes
ModEffect(wantOut) ==
    IF Mode = "ET" THEN UNCHANGED <<reg, dis, rdy, nospace>>      \* no syscall at all
    ELSE IF ~reg.on THEN UNCHANGED <<reg, dis, rdy, nospace>>     \* ENOENT, ignored by the code
    ELSE CtlEffect([on |-> TRUE, in |-> TRUE, out |-> wantOut])
ModIsSyscall == Mode # "ET"

(* ------------------------------ queueing ------------------------------ *)
\* newToWriteBuf(b) with len(b) = n  (a buffer is never appended to a file entry)
Buf(n)  == [len |-> n, off |-> 0, file |-> FALSE]
File(n) == [len |-> n, off |-> 0, file |-> TRUE]
Enqueue(q, n) ==
    IF q = <<>> THEN <<Buf(n)>>
    ELSE LET t == q[Len(q)] IN
         IF t.file \/ t.len + n > Coalesce THEN Append(q, Buf(n))
         ELSE [q EXCEPT ![Len(q)] = [len |-> t.len + n, off |-> t.off, file |-> FALSE]]
\* newToWriteFile: the (dup'ed) descriptor with n bytes left to send; not counted in `left`
EnqueueFile(q, n) == Append(q, File(n))
SumBuf(s) == SumQ(SelectSeq(s, LAMBDA e : ~e.file))

(* ------------------------- Conn.Write by thread t ------------------------- *)
\* the thread has a call to make
\* a negative entry -n of Prog is a Sendfile of n bytes, a positive one a Write (or Writev: the same at this grain)
HasCall(t) == done[t] < Len(Prog[t])
Raw(t) == Prog[t][done[t] + 1]
IsFile(t) == Raw(t) < 0
Size(t) == IF Raw(t) < 0 THEN 0 - Raw(t) ELSE Raw(t)

\* where a thread goes when a call has completed (d = number of calls completed then)
CallDonePc(t, d) == IF t = "o" THEN (IF d < Len(Prog["o"]) THEN "idle" ELSE "oadd") ELSE "idle"

\* after the write proper, still under the lock:  arm EPOLLOUT or finish
AfterWrite(t, q, wa) ==   \* q = new queue, wa = current wadded ; sets pc, wadded, mux, done
    IF q # <<>> /\ ~closed /\ ~wa
      THEN /\ wadded' = TRUE
           /\ IF ModIsSyscall THEN pc' = [pc EXCEPT ![t] = "wctl"] /\ mux' = t /\ UNCHANGED done
                              ELSE pc' = [pc EXCEPT ![t] = CallDonePc(t, done[t] + 1)]
                                   /\ mux' = "none" /\ done' = [done EXCEPT ![t] = @ + 1]
      ELSE /\ UNCHANGED wadded
           /\ pc' = [pc EXCEPT ![t] = CallDonePc(t, done[t] + 1)]
           /\ mux' = "none" /\ done' = [done EXCEPT ![t] = @ + 1]

\* Lock granted: everything up to the first syscall (or the whole call if there is none)
WBegin(t) ==
    /\ pc[t] = "idle" /\ HasCall(t) /\ mux = "none"
    /\ LET n == Size(t) IN
       IF closed \/ n = 0 THEN            \* returns net.ErrClosed / (0, nil)
            /\ done' = [done EXCEPT ![t] = @ + 1]
            /\ pc' = [pc EXCEPT ![t] = CallDonePc(t, done[t] + 1)]
            /\ UNCHANGED <<wl, left, wadded, closed, mux, cur, acc, ovf>>
       ELSE IF ~IsFile(t) /\ MaxWB > 0 /\ left + n > MaxWB THEN      \* errOverflow: closed := TRUE; Unlock; tear down
            \* (the replay driver always continues eagerly after a closing step, so the release of
            \* the queue and the removal from the table belong to this step)
            /\ closed' = TRUE /\ ovf' = TRUE /\ wl' = <<>>
            /\ pc' = [pc EXCEPT ![t] = "wclose"] /\ cur' = [cur EXCEPT ![t] = n]
            /\ UNCHANGED <<left, wadded, mux, done, acc>>
       ELSE IF wl = <<>> THEN    \* direct write: parked at the write syscall, lock held
            /\ mux' = t /\ pc' = [pc EXCEPT ![t] = "wsys"] /\ cur' = [cur EXCEPT ![t] = n]
            /\ UNCHANGED <<wl, left, wadded, closed, done, acc, ovf>>
       ELSE IF IsFile(t) THEN    \* Sendfile behind the backlog: dup, newToWriteFile, return (no modWrite)
            /\ wl' = EnqueueFile(wl, n) /\ acc' = acc + n
            /\ cur' = [cur EXCEPT ![t] = n]
            /\ done' = [done EXCEPT ![t] = @ + 1]
            /\ pc' = [pc EXCEPT ![t] = CallDonePc(t, done[t] + 1)]
            /\ UNCHANGED <<left, wadded, closed, mux, ovf>>
       ELSE                      \* queue behind the backlog
            /\ wl' = Enqueue(wl, n) /\ left' = left + n /\ acc' = acc + n
            /\ cur' = [cur EXCEPT ![t] = n]
            /\ AfterWrite(t, Enqueue(wl, n), wadded)
            /\ UNCHANGED <<closed, ovf>>
    /\ intable' = IF ~closed /\ ~IsFile(t) /\ Size(t) > 0 /\ MaxWB > 0 /\ left + Size(t) > MaxWB THEN FALSE ELSE intable
    /\ UNCHANGED <<lost, reg, dis, rdy, nospace, kfill, inq, fdclosed, pev, rdcnt, peek, sent, handed>>

\* the direct write syscall and everything up to the next syscall
WSysFile(t) ==          \* Sendfile: the loop of sendfile syscalls goes on until everything is sent or EAGAIN
    /\ pc[t] = "wsys" /\ IsFile(t)
    /\ LET n == cur[t]  k == Min(n, room) IN
       IF k = n THEN          \* everything handed over: return total
            /\ kfill' = kfill + k /\ handed' = handed + k /\ acc' = acc + k
            /\ mux' = "none" /\ done' = [done EXCEPT ![t] = @ + 1]
            /\ pc' = [pc EXCEPT ![t] = CallDonePc(t, done[t] + 1)]
            /\ UNCHANGED <<wl, wadded, nospace, cur>>
       ELSE IF k > 0 THEN     \* short: the next sendfile syscall follows
            /\ kfill' = kfill + k /\ handed' = handed + k /\ nospace' = TRUE
            /\ cur' = [cur EXCEPT ![t] = n - k] /\ acc' = acc + k      \* (ghost: counted as accepted when handed over)
            /\ UNCHANGED <<wl, wadded, mux, done, pc>>
       ELSE                   \* EAGAIN: dup, newToWriteFile(rest), modWrite
            /\ nospace' = TRUE /\ wl' = <<File(n)>> /\ acc' = acc + n
            /\ AfterWrite(t, <<File(n)>>, wadded)
            /\ UNCHANGED <<kfill, handed, cur>>
    /\ UNCHANGED <<left, lost, closed, intable, reg, dis, rdy, inq, fdclosed, pev, rdcnt, peek, sent, ovf>>

WSys(t) ==
    /\ pc[t] = "wsys" /\ ~IsFile(t)
    /\ LET n == cur[t]  k == Min(n, room)  rest == n - k
           q == rest > 0 /\ (Transport = "tcp" \/ "unix_tail" \in Fix)
           nq == IF q THEN <<Buf(rest)>> ELSE <<>> IN
       /\ kfill' = kfill + k /\ handed' = handed + k /\ acc' = acc + n
       /\ nospace' = (nospace \/ k < n)
       /\ wl' = nq /\ left' = IF q THEN left + rest ELSE left
       /\ lost' = IF rest > 0 /\ ~q THEN lost + rest ELSE lost
       /\ AfterWrite(t, nq, wadded)
    /\ UNCHANGED <<closed, intable, reg, dis, rdy, inq, fdclosed, cur, pev, rdcnt, peek, sent, ovf>>

\* EPOLL_CTL_MOD (read+write interest) issued by modWrite, then Unlock
WCtl(t) ==
    /\ pc[t] = "wctl"
    /\ ModEffect(TRUE)
    /\ mux' = "none" /\ done' = [done EXCEPT ![t] = @ + 1]
    /\ pc' = [pc EXCEPT ![t] = CallDonePc(t, done[t] + 1)]
    /\ UNCHANGED <<wl, left, wadded, closed, intable, kfill, inq, fdclosed, cur, pev, rdcnt, peek, sent, acc, handed, lost, ovf>>

\* the tear-down of the overflow path (release the queue, leave the table) up to and including close(fd)
WClose(t) ==
    /\ pc[t] = "wclose"
    /\ UNCHANGED <<wl, intable>>
    /\ fdclosed' = TRUE /\ reg' = [on |-> FALSE, in |-> FALSE, out |-> FALSE] /\ rdy' = FALSE
    /\ done' = [done EXCEPT ![t] = @ + 1]
    /\ pc' = [pc EXCEPT ![t] = CallDonePc(t, done[t] + 1)]
    /\ UNCHANGED <<left, wadded, closed, mux, dis, nospace, kfill, inq, cur, pev, rdcnt, peek, sent, acc, handed, lost, ovf>>

(* ------------------ the goroutine that adds the connection ------------------ *)
\* poller.addConn: c.p = p; onOpen(c) [the handler makes the calls of Prog["o"]]; table[fd] = c; addRead
\* repaired addConn: table[fd] = c; Lock; look at the queue        (parked at the EPOLL_CTL_ADD, lock held)
OpenAddLock ==
    /\ "onopen_arm" \in Fix
    /\ pc["o"] = "oadd" /\ mux = "none"
    /\ intable' = ~closed
    /\ mux' = "o" /\ pc' = [pc EXCEPT !["o"] = "oadd2"]
    /\ wadded' = (wadded \/ (wl # <<>> /\ ~closed))
    /\ UNCHANGED <<wl, left, closed, reg, dis, rdy, nospace, kfill, inq, fdclosed, cur, done, pev, rdcnt, peek, sent,
                   acc, handed, lost, ovf>>

\* EPOLL_CTL_ADD: read interest (+ write interest if data was cached in the open callback -- repaired
\* code only); edge-triggered mode without one-shot always registers EPOLLOUT
OpenAdd ==
    /\ pc["o"] = IF "onopen_arm" \in Fix THEN "oadd2" ELSE "oadd"
    /\ IF fdclosed THEN UNCHANGED <<reg, dis, rdy, nospace>>
       ELSE CtlEffect([on |-> TRUE, in |-> TRUE,
                       out |-> (Mode = "ET" \/ ("onopen_arm" \in Fix /\ wl # <<>> /\ ~closed))])
    /\ intable' = ~closed                       \* table[fd] = c precedes the EPOLL_CTL_ADD
    /\ mux' = IF mux = "o" THEN "none" ELSE mux
    /\ pc' = [p \in Threads |-> IF p = "o" THEN "odone" ELSE IF p \in Writers THEN "idle" ELSE pc[p]]
    /\ UNCHANGED <<wl, left, wadded, closed, kfill, inq, fdclosed, cur, done, pev, rdcnt, peek, sent,
                   acc, handed, lost, ovf>>

(* --------------------------------- poller --------------------------------- *)
\* what comes after the flush part of an event
\* (repaired code: in one-shot mode a pure writing event is followed by ResetPollerEvent)
AfterFlushPc == IF "in" \in pev THEN "rlock"
                ELSE IF Mode = "OS" /\ "os_eagain_rearm" \in Fix THEN "rearml"
                ELSE "wait"

PWait ==
    /\ pc["p"] = "wait" /\ HasReady
    /\ LET ev == Level \cap Interest(reg) IN
       /\ pev' = ev
       /\ rdy' = (Mode = "LT")                  \* edge-triggered / one-shot items leave the ready list
       /\ dis' = (Mode = "OS")
       /\ nospace' = (nospace \/ (reg.out /\ room = 0))
       /\ rdcnt' = 0
       /\ pc' = [pc EXCEPT !["p"] =
                   IF ~intable THEN "wait"       \* getConn(fd) = nil: event ignored
                   ELSE IF "out" \in ev THEN "flock" ELSE "rlock"]
    /\ UNCHANGED <<wl, left, wadded, closed, intable, mux, reg, kfill, inq, fdclosed, cur, done, peek, sent,
                   acc, handed, lost, ovf>>

\* flush(): Lock granted
PFLock ==
    /\ pc["p"] = "flock" /\ mux = "none"
    /\ IF closed
         THEN pc' = [pc EXCEPT !["p"] = AfterFlushPc] /\ UNCHANGED <<mux, wadded>>
         ELSE IF wl = <<>>
           THEN IF wadded          \* nothing to flush: resetRead() drops the writing event (repaired code)
                  THEN /\ wadded' = FALSE
                       /\ IF ModIsSyscall THEN pc' = [pc EXCEPT !["p"] = "fctl"] /\ mux' = "p"
                                          ELSE pc' = [pc EXCEPT !["p"] = AfterFlushPc] /\ UNCHANGED mux
                  ELSE pc' = [pc EXCEPT !["p"] = AfterFlushPc] /\ UNCHANGED <<mux, wadded>>
           ELSE pc' = [pc EXCEPT !["p"] = "fsys"] /\ mux' = "p" /\ UNCHANGED wadded
    /\ UNCHANGED <<wl, left, closed, intable, reg, dis, rdy, nospace, kfill, inq, fdclosed, cur, done, pev,
                   rdcnt, peek, sent, acc, handed, lost, ovf>>

\* one write syscall of flush and what follows up to the next syscall
PFSys ==
    /\ pc["p"] = "fsys"
    /\ LET h == wl[1]  r == Remaining(h)  k == Min(r, room) IN
       IF k = 0 THEN         \* EAGAIN: flush returns
            /\ nospace' = TRUE
            /\ pc' = [pc EXCEPT !["p"] = AfterFlushPc] /\ mux' = "none"
            /\ UNCHANGED <<wl, left, wadded, kfill, handed>>
       ELSE /\ kfill' = kfill + k /\ handed' = handed + k /\ left' = IF h.file THEN left ELSE left - k
            /\ nospace' = (nospace \/ k < r)
            /\ LET nq == IF k = r THEN Tail(wl) ELSE <<[h EXCEPT !.off = @ + k]>> \o Tail(wl) IN
               /\ wl' = nq
               /\ IF nq # <<>>
                    THEN pc' = pc /\ UNCHANGED <<wadded, mux>>          \* next write syscall
                    ELSE IF ~closed /\ wadded                            \* resetRead()
                           THEN /\ wadded' = FALSE
                                /\ IF ModIsSyscall THEN pc' = [pc EXCEPT !["p"] = "fctl"] /\ UNCHANGED mux
                                                   ELSE pc' = [pc EXCEPT !["p"] = AfterFlushPc] /\ mux' = "none"
                           ELSE /\ pc' = [pc EXCEPT !["p"] = AfterFlushPc] /\ mux' = "none" /\ UNCHANGED wadded
    /\ UNCHANGED <<closed, intable, reg, dis, rdy, inq, fdclosed, cur, done, pev, rdcnt, peek, sent, acc, lost, ovf>>

\* EPOLL_CTL_MOD (read interest only) of resetRead, then Unlock
PFCtl ==
    /\ pc["p"] = "fctl"
    /\ ModEffect(FALSE)
    /\ mux' = "none" /\ pc' = [pc EXCEPT !["p"] = AfterFlushPc]
    /\ UNCHANGED <<wl, left, wadded, closed, intable, kfill, inq, fdclosed, cur, done, pev, rdcnt, peek, sent,
                   acc, handed, lost, ovf>>

\* ReadAndGetConn: Lock granted
PRLock ==
    /\ pc["p"] = "rlock" /\ mux = "none"
    /\ IF closed THEN pc' = [pc EXCEPT !["p"] = "wait"] /\ UNCHANGED mux   \* (close handling not modelled)
       ELSE pc' = [pc EXCEPT !["p"] = "rsys"] /\ mux' = "p"
    /\ UNCHANGED <<wl, left, wadded, closed, intable, reg, dis, rdy, nospace, kfill, inq, fdclosed, cur, done, pev,
                   rdcnt, peek, sent, acc, handed, lost, ovf>>

\* the read syscall, Unlock
PRSys ==
    /\ pc["p"] = "rsys"
    /\ LET n == Min(RdBuf, inq) IN
       /\ inq' = inq - n /\ mux' = "none" /\ rdcnt' = rdcnt + 1
       /\ pc' = [pc EXCEPT !["p"] = "rpost"]
       /\ peek' = (n = RdBuf /\ n > 0 /\ rdcnt + 1 < MaxRead)      \* reused: TRUE = the read loop continues
    /\ UNCHANGED <<wl, left, wadded, closed, intable, reg, dis, rdy, nospace, kfill, fdclosed, cur, done, pev, sent,
                   acc, handed, lost, ovf>>

\* the code after the Unlock of the read: data callback, loop control, and in one-shot mode the
\* UNLOCKED look at the write queue in ResetPollerEvent
PRPost ==
    /\ pc["p"] = "rpost"
    /\ IF peek THEN pc' = [pc EXCEPT !["p"] = "rlock"] /\ UNCHANGED peek
       ELSE IF Mode = "OS" /\ ~closed
              THEN IF "os_peek_locked" \in Fix
                     THEN pc' = [pc EXCEPT !["p"] = "rearml"] /\ UNCHANGED peek     \* parked at the Lock
                     ELSE /\ peek' = (wl # <<>>) /\ pc' = [pc EXCEPT !["p"] = "rearm"]
              ELSE /\ pc' = [pc EXCEPT !["p"] = "wait"] /\ UNCHANGED peek
    /\ UNCHANGED <<wl, left, wadded, closed, intable, mux, reg, dis, rdy, nospace, kfill, inq, fdclosed, cur, done, pev,
                   rdcnt, sent, acc, handed, lost, ovf>>

\* repaired ResetPollerEvent: the look at the queue happens under the connection mutex
PRearmLock ==
    /\ pc["p"] = "rearml" /\ mux = "none"
    /\ IF closed THEN pc' = [pc EXCEPT !["p"] = "wait"] /\ UNCHANGED <<mux, peek>>
       ELSE peek' = (wl # <<>>) /\ mux' = "p" /\ pc' = [pc EXCEPT !["p"] = "rearm"]
    /\ UNCHANGED <<wl, left, wadded, closed, intable, reg, dis, rdy, nospace, kfill, inq, fdclosed, cur, done, pev,
                   rdcnt, sent, acc, handed, lost, ovf>>

\* EPOLL_CTL_MOD of ResetPollerEvent (does not touch wadded)
PRearm ==
    /\ pc["p"] = "rearm"
    /\ ModEffect(peek)
    /\ pc' = [pc EXCEPT !["p"] = "wait"]
    /\ mux' = IF mux = "p" THEN "none" ELSE mux
    /\ UNCHANGED <<wl, left, wadded, closed, intable, kfill, inq, fdclosed, cur, done, pev, rdcnt, peek, sent,
                   acc, handed, lost, ovf>>

(* ------------------------------- environment ------------------------------- *)
PeerRead(m) ==
    /\ m \in 1..kfill
    /\ kfill' = kfill - m
    /\ nospace' = FALSE
    /\ rdy' = (rdy \/ (nospace /\ reg.on /\ ~dis /\ reg.out))     \* write-space wake-up
    /\ UNCHANGED <<wl, left, wadded, closed, intable, mux, reg, dis, inq, fdclosed, pc, cur, done, pev, rdcnt, peek,
                   sent, acc, handed, lost, ovf>>

PeerSend ==
    /\ sent > 0 /\ ~fdclosed
    /\ sent' = sent - 1 /\ inq' = inq + 1
    /\ rdy' = (rdy \/ (reg.on /\ ~dis /\ reg.in))
    /\ UNCHANGED <<wl, left, wadded, closed, intable, mux, reg, dis, nospace, kfill, fdclosed, pc, cur, done, pev, rdcnt,
                   peek, acc, handed, lost, ovf>>

Step(t) == \/ (t \in Writers \cup {"o"} /\ (WBegin(t) \/ WSys(t) \/ WSysFile(t) \/ WCtl(t) \/ WClose(t)))
           \/ (t = "o" /\ (OpenAddLock \/ OpenAdd))
           \/ (t = "p" /\ (PWait \/ PFLock \/ PFSys \/ PFCtl \/ PRLock \/ PRSys \/ PRPost \/ PRearmLock \/ PRearm))
Sys  == \E t \in Threads : Step(t)
Env  == (\E m \in 1..SndCap : PeerRead(m)) \/ PeerSend
\* flat disjunction so that TLC labels every transition with the sub-action that produced it
Next == \/ \E t \in Writers \cup {"o"} : WBegin(t) \/ WSys(t) \/ WSysFile(t) \/ WCtl(t) \/ WClose(t)
        \/ OpenAddLock \/ OpenAdd
        \/ PWait \/ PFLock \/ PFSys \/ PFCtl \/ PRLock \/ PRSys \/ PRPost \/ PRearmLock \/ PRearm
        \/ (\E m \in 1..SndCap : PeerRead(m)) \/ PeerSend

Spec == Init /\ [][Next]_vars /\ (\A t \in Threads : WF_vars(Step(t))) /\ WF_vars(\E m \in 1..SndCap : PeerRead(m))

(* -------------------------------- properties -------------------------------- *)
TypeOK == /\ left >= 0 /\ kfill \in 0..SndCap /\ mux \in Threads \cup {"none"}
Integrity  == lost = 0 /\ (~closed => acc = handed + SumQ(wl))           \* C01 (count form)
LeftExact  == ~closed => left = SumBuf(wl)                               \* C17 (file entries are not counted)
Bounded    == MaxWB > 0 => SumBuf(wl) <= MaxWB                           \* C17
Quiescent  == ~ENABLED Sys /\ kfill = 0
NoStall    == (Quiescent /\ ~closed) => wl = <<>>                        \* C04, safety form
Drains     == (wl # <<>>) ~> (wl = <<>> \/ closed)                       \* C04, liveness form
WaddedSound == (~closed /\ wl # <<>> /\ mux = "none" /\ reg.on /\ Mode # "ET" /\ pc["o"] = "odone") => wadded
=============================================================================
