------------------------------- MODULE Deadline -------------------------------
(***************************************************************************)
(* Deadlines of an nbio.Conn (SetDeadline / SetReadDeadline /              *)
(* SetWriteDeadline, conn_unix.go) over an integer clock.  One timer per   *)
(* direction; setting a deadline arms or re-arms it, the zero time clears   *)
(* it, a Write that leaves no backlog clears the write deadline, closing    *)
(* the connection stops both.  A timer that reaches its deadline closes the *)
(* connection with the corresponding timeout error.                         *)
(* The module is both the design model (NeverEarly, NoStaleFire, FiresBy    *)
(* checked by TLC) and the generator of deadline histories: `hist` is the   *)
(* sequence of <<time, operation, argument>> the driver replays in real     *)
(* time (one unit = 40 ms).                                                 *)
(***************************************************************************)
EXTENDS Integers, Sequences, FiniteSets, TLC

CONSTANTS Horizon,    \* last tick
          MaxOps,
          Durations   \* deadline distances (in ticks) to choose from

VARIABLES now, rdl, wdl, closed, cause, hist, nops, backlog
vars == <<now, rdl, wdl, closed, cause, hist, nops, backlog>>

Init == now = 0 /\ rdl = 0 /\ wdl = 0 /\ closed = FALSE /\ cause = "none" /\ hist = <<>> /\ nops = 0 /\ backlog = FALSE

Do(op, d) == /\ ~closed /\ nops < MaxOps /\ nops' = nops + 1 /\ hist' = Append(hist, <<now, op, d>>)

\* d = 0 stands for a deadline that is already in the past when it is set: the connection is closed at once
\* with the timeout error of that direction (of either direction for the combined call)
Past == IF now - 1 = 0 THEN -1 ELSE now - 1
SetR(d)  == /\ Do("setr", d)
            /\ IF d = 0 THEN rdl' = Past /\ closed' = TRUE /\ cause' = "rtimeout"
                        ELSE rdl' = now + d /\ UNCHANGED <<closed, cause>>
            /\ UNCHANGED <<now, wdl, backlog>>
SetW(d)  == /\ Do("setw", d)
            /\ IF d = 0 THEN wdl' = Past /\ closed' = TRUE /\ cause' = "wtimeout"
                        ELSE wdl' = now + d /\ UNCHANGED <<closed, cause>>
            /\ UNCHANGED <<now, rdl, backlog>>
SetRW(d) == /\ Do("setrw", d)
            /\ IF d = 0 THEN rdl' = Past /\ wdl' = Past /\ closed' = TRUE /\ cause' \in {"rtimeout", "wtimeout"}
                        ELSE rdl' = now + d /\ wdl' = now + d /\ UNCHANGED <<closed, cause>>
            /\ UNCHANGED <<now, backlog>>
ClearR   == Do("clearr", 0) /\ rdl' = 0 /\ UNCHANGED <<now, wdl, closed, cause>> /\ UNCHANGED backlog
ClearW   == Do("clearw", 0) /\ wdl' = 0 /\ UNCHANGED <<now, rdl, closed, cause>> /\ UNCHANGED backlog
ClearRW  == Do("clearrw", 0) /\ rdl' = 0 /\ wdl' = 0 /\ UNCHANGED <<now, closed, cause>> /\ UNCHANGED backlog
\* a Write that is taken completely by the kernel: no backlog is left, the write deadline is cancelled
DrainWrite == Do("write", 0) /\ wdl' = (IF backlog THEN wdl ELSE 0) /\ UNCHANGED <<now, rdl, closed, cause, backlog>>
\* a Write that the stalled peer does not take: a backlog stays, the write deadline keeps running
BacklogWrite == Do("bigwrite", 0) /\ backlog' = TRUE /\ UNCHANGED <<now, rdl, wdl, closed, cause>>
Close    == Do("close", 0) /\ closed' = TRUE /\ cause' = "close" /\ rdl' = 0 /\ wdl' = 0 /\ UNCHANGED now /\ UNCHANGED backlog

\* time passes; a deadline that is reached fires
Tick == /\ now < Horizon /\ ~closed
        /\ now' = now + 1
        /\ IF rdl # 0 /\ rdl <= now + 1
             THEN closed' = TRUE /\ cause' = "rtimeout"
             ELSE IF wdl # 0 /\ wdl <= now + 1
                    THEN closed' = TRUE /\ cause' = "wtimeout"
                    ELSE UNCHANGED <<closed, cause>>
        /\ UNCHANGED <<rdl, wdl, hist, nops, backlog>>

Next == \/ \E d \in Durations : SetR(d) \/ SetW(d) \/ SetRW(d)
        \/ ClearR \/ ClearW \/ ClearRW \/ DrainWrite \/ BacklogWrite \/ Close \/ Tick
Spec == Init /\ [][Next]_vars

NeverEarly  == (cause = "rtimeout" => (rdl # 0 /\ now >= rdl)) /\ (cause = "wtimeout" => (wdl # 0 /\ now >= wdl))
NoStaleFire == (cause \in {"rtimeout", "wtimeout"}) => (rdl # 0 \/ wdl # 0)
FiresBy     == ~closed => ((rdl = 0 \/ now < rdl) /\ (wdl = 0 \/ now < wdl))
TypeOK == now \in 0..Horizon
=============================================================================
