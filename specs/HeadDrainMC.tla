---------------------------- MODULE HeadDrainMC ----------------------------
EXTENDS HeadDrain
S1 == {"s1"}
S2 == {"s1", "s2"}
S3 == {"s1", "s2", "s3"}
\* programs: every submitter makes the same calls
P_ee  == [s \in Subs |-> <<"exec", "exec">>]
P_e   == [s \in Subs |-> <<"exec">>]
P_em  == [s \in Subs |-> <<"exec", "must">>]
P_eee == [s \in Subs |-> <<"exec", "exec", "exec">>]
P_mix == [s \in Subs |-> IF s = "s1" THEN <<"exec", "must">> ELSE <<"exec", "exec">>]
\* state projection without history variables (exhaustive runs)
View == <<list, closed, spc, cnt, drainers, nextg, running, closerDone,
          \* the history variables matter to the invariants only through these projections:
          Len(ran), Len(order), IsPrefix(ran, order), ran = order, refused>>
=============================================================================
