------------------------------ MODULE InboundMon ------------------------------
(***************************************************************************)
(* Property-level monitor for C02, one engine configuration per scenario.  *)
(*   data c lo hi ok     the data callback of the connection carrying       *)
(*                       stream c got bytes [lo,hi) (ok: contents match)    *)
(*   sent c n            the peer sent n bytes on stream c in total          *)
(*   sentd remote seq len / dgram conn remote seq len ok     UDP             *)
(*   idle cpu overlaps   process CPU (% of one core) over the idle window    *)
(*                       after the traffic; overlapping data callbacks of    *)
(*                       one connection seen during the run                  *)
(*   quiesce                                                                 *)
(***************************************************************************)
EXTENDS Integers, Sequences, FiniteSets, TLC

Fn(f, k, v) == [x \in (DOMAIN f) \cup {k} |-> IF x = k THEN v ELSE f[x]]
Get(f, k, d) == IF k \in DOMAIN f THEN f[k] ELSE d

MonInit(e) == [del |-> <<>>, sent |-> <<>>, nseq |-> <<>>, slen |-> <<>>, nsent |-> <<>>, rc |-> <<>>, cr |-> <<>>]

Guard(st, e) ==
    CASE e.ev = "data" -> e.ok /\ e.lo = Get(st.del, e.c, 4)          \* exactly once, in order, unaltered
      [] e.ev = "dgram" -> /\ e.ok
                           /\ e.seq = Get(st.nseq, e.remote, 0)        \* per remote: in order, once
                           /\ e.len = Get(st.slen, <<e.remote, e.seq>>, -1)   \* boundaries preserved
                           /\ Get(st.rc, e.remote, e.conn) = e.conn   \* one logical connection per remote ...
                           /\ Get(st.cr, e.conn, e.remote) = e.remote \* ... and per connection one remote
      [] e.ev = "idle" -> e.cpu <= 30 /\ e.overlaps = 0
      [] e.ev = "stranded" -> FALSE                                    \* input left unread while the readers are idle
      [] e.ev = "stuck" -> FALSE                                       \* cooperative replay: the readers never went idle
      [] e.ev = "panic" -> FALSE
      [] e.ev = "quiesce" -> /\ \A c \in DOMAIN st.sent : Get(st.del, c, 4) = (IF st.sent[c] < 4 THEN 4 ELSE st.sent[c])
                             /\ \A r \in DOMAIN st.nsent : Get(st.nseq, r, 0) = st.nsent[r]
      [] OTHER -> TRUE

Effect(st, e) ==
    CASE e.ev = "data" -> [st EXCEPT !.del = Fn(@, e.c, e.hi)]
      [] e.ev = "sent" -> [st EXCEPT !.sent = Fn(@, e.c, e.n)]
      [] e.ev = "sentd" -> [st EXCEPT !.slen = Fn(@, <<e.remote, e.seq>>, e.len), !.nsent = Fn(@, e.remote, e.seq + 1)]
      [] e.ev = "dgram" -> [st EXCEPT !.nseq = Fn(@, e.remote, e.seq + 1), !.rc = Fn(@, e.remote, e.conn), !.cr = Fn(@, e.conn, e.remote)]
      [] OTHER -> st

Why(st, e) ==
    CASE e.ev = "data" /\ ~e.ok -> "bytes delivered to the data callback differ from the bytes sent"
      [] e.ev = "data" /\ e.lo > Get(st.del, e.c, 4) -> "bytes were skipped (lost or delivered out of order)"
      [] e.ev = "data" -> "bytes were delivered twice"
      [] e.ev = "dgram" /\ ~e.ok -> "datagram contents altered"
      [] e.ev = "dgram" /\ e.seq # Get(st.nseq, e.remote, 0) -> "datagram lost, duplicated or out of order"
      [] e.ev = "dgram" /\ e.len # Get(st.slen, <<e.remote, e.seq>>, -1) -> "datagram boundary not preserved"
      [] e.ev = "dgram" -> "datagrams of one remote address attributed to different logical connections (or two remotes to one)"
      [] e.ev = "stranded" -> "input was left unread with no reader active (delivered only when later traffic arrived, or never)"
      [] e.ev = "stuck" -> "a reader keeps spinning although no input is pending (no quiescence in the replay)"
      [] e.ev = "panic" -> "a panic escaped from a library goroutine"
      [] e.ev = "idle" /\ e.overlaps # 0 -> "data callbacks of one connection ran concurrently"
      [] e.ev = "idle" -> "a reader keeps spinning although no input is pending"
      [] e.ev = "quiesce" -> "bytes / datagrams sent by the peer were never delivered"
      [] OTHER -> "event not allowed"
=============================================================================
