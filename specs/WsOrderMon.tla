------------------------------ MODULE WsOrderMon ------------------------------
(***************************************************************************)
(* Property-level monitor for C14, one WebSocket connection per scenario.   *)
(* Server-side callbacks (in the order they were observed):                 *)
(*   openb / opene            the open callback begins / ends                *)
(*   msgb seq / msge seq      a message callback begins / ends; seq is the   *)
(*                            number the client put into the message (wire    *)
(*                            order)                                         *)
(*   closecb                  the close callback                             *)
(*   engclose                 the HTTP engine's OnClose callback               *)
(* Client side (decoding the server's wire):                                 *)
(*   wmsg writer seq ok       a whole message written by `writer` arrived     *)
(*   wbad why                 the frame sequence is not a sequence of whole   *)
(*                            messages (interleaved fragments, bad opcode)    *)
(*   wsent writer n           the writer's n WriteMessage calls all returned   *)
(*                            nil                                            *)
(*   closeanswered ok         the server answered the client's close frame     *)
(*                            (close frame or EOF) within the bound             *)
(*   violationanswered ok     the server failed the connection after a frame    *)
(*                            RFC 6455 forbids                                  *)
(*   end                                                                     *)
(* Ownership of pooled buffers (one block per engine, C11):                   *)
(*   a op id                  allocator call on buffer handle id               *)
(*   aend poison              bytes of freed buffers unmodified                *)
(***************************************************************************)
EXTENDS Integers, Sequences, FiniteSets, TLC

Fn(f, k, v) == [x \in (DOMAIN f) \cup {k} |-> IF x = k THEN v ELSE f[x]]
Get(f, k, d) == IF k \in DOMAIN f THEN f[k] ELSE d

MonInit(e) == [live |-> {}, deadb |-> {}, engclosed |-> 0,
               path |-> IF "path" \in DOMAIN e THEN e.path ELSE "", openb |-> FALSE, opene |-> FALSE, inmsg |-> FALSE, lastseq |-> -1, closed |-> 0, wseq |-> <<>>,
               expectclose |-> IF "expectclose" \in DOMAIN e THEN e.expectclose ELSE TRUE]

Guard(st, e) ==
    CASE e.ev = "openb" -> ~st.openb
      [] e.ev = "opene" -> st.openb /\ ~st.opene
      [] e.ev = "msgb"  -> /\ st.opene                       \* the open callback completed before any message callback
                           /\ ~st.inmsg                      \* one at a time
                           /\ st.closed = 0                  \* none after the close callback
                           /\ e.seq = st.lastseq + 1         \* in wire order, exactly once
      [] e.ev = "msge"  -> st.inmsg
      [] e.ev = "closecb" -> st.closed = 0 /\ ~st.inmsg /\ (st.openb => st.opene)    \* exactly once, after them
      [] e.ev = "wmsg"  -> e.ok /\ e.seq = Get(st.wseq, e.writer, 0)                \* whole, once, per-writer order
      [] e.ev = "wbad"  -> FALSE
      [] e.ev = "wsent" -> Get(st.wseq, e.writer, 0) = e.n                           \* none lost
      [] e.ev = "end"   -> (st.expectclose /\ st.openb) => st.closed = 1     \* (no open callback: the upgrade was refused)
      \* the HTTP engine's close callback of a poller-driven connection is part of the queued close handling
      [] e.ev = "engclose" -> st.path = "poller" => (st.engclosed = 0 /\ ~st.inmsg /\ (st.openb => st.opene))
      [] e.ev = "closeanswered" -> e.ok
      [] e.ev = "violationanswered" -> e.ok
      [] e.ev = "a" -> IF e.op = "malloc" THEN e.id \notin st.live ELSE e.id \in st.live
      [] e.ev = "aend" -> e.poison
      [] e.ev = "panic" -> FALSE
      [] OTHER -> TRUE

Effect(st, e) ==
    CASE e.ev = "openb" -> [st EXCEPT !.openb = TRUE]
      [] e.ev = "opene" -> [st EXCEPT !.opene = TRUE]
      [] e.ev = "msgb"  -> [st EXCEPT !.inmsg = TRUE, !.lastseq = e.seq]
      [] e.ev = "msge"  -> [st EXCEPT !.inmsg = FALSE]
      [] e.ev = "closecb" -> [st EXCEPT !.closed = @ + 1]
      [] e.ev = "engclose" -> [st EXCEPT !.engclosed = @ + 1]
      [] e.ev = "wmsg"  -> [st EXCEPT !.wseq = Fn(@, e.writer, e.seq + 1)]
      [] e.ev = "a" /\ e.op = "malloc" -> [st EXCEPT !.live = @ \cup {e.id}, !.deadb = @ \ {e.id}]
      [] e.ev = "a" /\ e.op = "free" -> [st EXCEPT !.live = @ \ {e.id}, !.deadb = @ \cup {e.id}]
      [] OTHER -> st

Why(st, e) ==
    CASE e.ev = "openb" \/ e.ev = "opene" -> "open callback ran twice"
      [] e.ev = "msgb" /\ ~st.opene -> "message callback ran before the open callback had completed"
      [] e.ev = "msgb" /\ st.inmsg -> "message callbacks of one connection overlap"
      [] e.ev = "msgb" /\ st.closed # 0 -> "message callback after the close callback"
      [] e.ev = "msgb" -> "message callbacks not in wire order (or a message lost / duplicated)"
      [] e.ev = "msge" -> "recorder error"
      [] e.ev = "closecb" /\ st.closed # 0 -> "close callback ran twice"
      [] e.ev = "closecb" -> "close callback ran while a message / open callback was still running"
      [] e.ev = "wmsg" /\ ~e.ok -> "a message arrived corrupted"
      [] e.ev = "wmsg" -> "a written message was lost, duplicated or reordered within its writer"
      [] e.ev = "wbad" -> "frames of concurrently written messages are interleaved on the wire"
      [] e.ev = "wsent" -> "a message whose WriteMessage returned nil never reached the wire"
      [] e.ev = "engclose" /\ st.engclosed # 0 -> "engine close callback ran twice"
      [] e.ev = "engclose" -> "engine close callback ran while a callback of the connection was still running"
      [] e.ev = "end" -> "the close callback never ran"
      [] e.ev = "closeanswered" -> "a close frame was not answered"
      [] e.ev = "violationanswered" -> "a protocol violation did not fail the connection"
      [] e.ev = "a" /\ e.op = "malloc" -> "allocator handed out a buffer that is still live elsewhere"
      [] e.ev = "a" /\ e.op = "free" /\ e.id \in st.deadb -> "buffer returned to the pool twice"
      [] e.ev = "a" /\ e.op = "free" -> "free of a buffer that was never allocated"
      [] e.ev = "a" -> "buffer used after it was returned to the pool"
      [] e.ev = "aend" -> "bytes of a freed buffer were modified (write after free)"
      [] e.ev = "panic" -> "panic"
      [] OTHER -> "event not allowed"
=============================================================================
