---------------------------- MODULE WsDispatchMC ----------------------------
EXTENDS WsDispatch
FixAll == {"gate", "queue"}
FixQueue == {"queue"}
FixGate == {"gate"}
FixNone == {}
=============================================================================
