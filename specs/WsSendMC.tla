------------------------------ MODULE WsSendMC ------------------------------
EXTENDS WsSend
W2 == {"w1", "w2"}
W3 == {"w1", "w2", "w3"}
M_a == [w \in Writers |-> IF w = "w1" THEN <<2, 1>> ELSE <<1, 2>>]
M_b == [w \in Writers |-> IF w = "w1" THEN <<3>> ELSE IF w = "w2" THEN <<1, 1>> ELSE <<2>>]
M_c == [w \in Writers |-> <<1, 1, 1>>]
M_d == [w \in Writers |-> <<2, 2>>]
=============================================================================
