------------------------------ MODULE FifoMon ------------------------------
(***************************************************************************)
(* Property-level monitor for C05 (per-connection job serialization), and, *)
(* with jobs = functions, for the FIFO clause of C19 (Timer.Async).        *)
(*                                                                         *)
(* Observable events of ONE connection (one scenario):                     *)
(*   call  j kind lin   a submitter is about to call Execute ("exec") or   *)
(*                      MustExecute ("must") with job j.  lin = TRUE means *)
(*                      the recorder guarantees that call events appear in *)
(*                      the order of the submissions' critical sections    *)
(*                      (cooperative replay); lin = FALSE means only       *)
(*                      real-time order is known (free-running recording). *)
(*   ret   j ok         the call returned (ok = Execute's result)          *)
(*   start j            the body of job j begins                           *)
(*   end   j            the body of job j ends (normally or by panic)      *)
(*   closeret           Close() returned                                   *)
(*   closecall          Close() is about to be called                      *)
(*   quiesce            the recorder claims: all calls returned, the       *)
(*                      executor is idle                                   *)
(***************************************************************************)
EXTENDS Integers, Sequences, FiniteSets, TLC

MonInit(e) == [called   |-> {},          \* jobs whose call was seen
               kind     |-> <<>>,        \* (function) j -> "exec" | "must"
               pred     |-> <<>>,        \* (function) j -> jobs that must start before j
               acc      |-> {},          \* jobs whose call returned ok (or must)
               refused  |-> {},
               started  |-> {},
               ended    |-> {},
               running  |-> {},
               retd     |-> {},
               closecalled |-> FALSE,
               closeret |-> FALSE,
               closedAtCall |-> {},      \* jobs called after Close had returned
               overtaken |-> {}          \* earlier-submitted jobs (outcome of their call not yet known) that a
                                         \* later job overtook: legal only if their call ends up refused
              ]

Fn(f, k, v) == [x \in (DOMAIN f) \cup {k} |-> IF x = k THEN v ELSE f[x]]

Guard(st, e) ==
    CASE e.ev = "call"  -> e.j \notin st.called
      [] e.ev = "ret"   -> /\ e.j \in st.called /\ e.j \notin st.retd
                           \* Execute may refuse only if a Close was at least begun, and must refuse
                           \* if Close had returned before the call; MustExecute never refuses
                           /\ (~e.ok => (st.kind[e.j] = "exec" /\ st.closecalled /\ e.j \notin st.started))
                           /\ (e.ok /\ st.kind[e.j] = "exec" => e.j \notin st.closedAtCall)
                           /\ (e.ok => e.j \notin st.overtaken)
      [] e.ev = "start" -> /\ e.j \in st.called                        \* only submitted jobs
                           /\ e.j \notin st.started                    \* at most once
                           /\ e.j \notin st.refused                    \* refused jobs never run
                           /\ st.running = {}                          \* one at a time
                           /\ e.j \notin st.overtaken
                           \* submission order: every earlier-submitted job that is known to be accepted
                           \* has started (the others are remembered in "overtaken")
                           /\ \A p \in (st.pred[e.j] \ st.refused) \ st.started :
                                 p \notin st.acc /\ st.kind[p] = "exec"
      [] e.ev = "end"   -> e.j \in st.running
      [] e.ev = "closecall" -> TRUE
      [] e.ev = "closeret"  -> TRUE
      [] e.ev = "quiesce" -> /\ st.running = {}
                             /\ st.called = st.retd
                             /\ st.acc \subseteq st.ended              \* exactly once: nothing lost
      [] OTHER -> FALSE

Effect(st, e) ==
    CASE e.ev = "call"  -> [st EXCEPT !.called = @ \cup {e.j},
                                      !.kind = Fn(@, e.j, e.kind),
                                      !.pred = Fn(@, e.j, IF e.lin THEN st.called ELSE st.acc),
                                      !.closedAtCall = IF st.closeret THEN @ \cup {e.j} ELSE @]
      [] e.ev = "ret"   -> [st EXCEPT !.retd = @ \cup {e.j},
                                      !.acc = IF e.ok THEN @ \cup {e.j} ELSE @,
                                      !.refused = IF e.ok THEN @ ELSE @ \cup {e.j}]
      [] e.ev = "start" -> [st EXCEPT !.started = @ \cup {e.j}, !.running = @ \cup {e.j},
                                      !.overtaken = @ \cup ((st.pred[e.j] \ st.refused) \ st.started)]
      [] e.ev = "end"   -> [st EXCEPT !.running = @ \ {e.j}, !.ended = @ \cup {e.j}]
      [] e.ev = "closecall" -> [st EXCEPT !.closecalled = TRUE]
      [] e.ev = "closeret"  -> [st EXCEPT !.closeret = TRUE]
      [] OTHER -> st

Why(st, e) ==
    CASE e.ev = "start" /\ e.j \in st.started -> "job started twice"
      [] e.ev = "start" /\ e.j \in st.refused -> "refused job was run"
      [] e.ev = "start" /\ st.running # {}    -> "two jobs of one connection overlap"
      [] e.ev = "start" /\ e.j \in st.called  -> "job started before an earlier submitted job"
      [] e.ev = "start"                       -> "unknown job started"
      [] e.ev = "ret" /\ e.j \in st.called /\ ~e.ok /\ e.j \in st.started -> "Execute returned false but the job ran"
      [] e.ev = "ret" /\ e.j \in st.called /\ ~e.ok -> "Execute/MustExecute refused a job although no Close was begun (or MustExecute refused)"
      [] e.ev = "ret" /\ e.j \in st.called /\ e.ok /\ e.j \in st.overtaken -> "accepted job was overtaken by a later submitted job"
      [] e.ev = "ret" /\ e.j \in st.called /\ e.ok  -> "Execute accepted a job after Close had returned"
      [] e.ev = "panic" -> "a panic escaped from a library goroutine (would crash the process)"
      [] e.ev = "stuck" -> "execution did not quiesce: a thread is blocked forever or the hand-over protocol spins"
      [] e.ev = "quiesce" /\ st.running # {} -> "job still running at quiescence"
      [] e.ev = "quiesce" /\ st.called # st.retd -> "a call never returned"
      [] e.ev = "quiesce" -> "accepted job never ran (lost)"
      [] OTHER -> "event not allowed"
=============================================================================
