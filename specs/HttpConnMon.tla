----------------------------- MODULE HttpConnMon -----------------------------
(***************************************************************************)
(* Property-level monitor for C10.  Server side, one connection per         *)
(* scenario:                                                                *)
(*   plan n closeafter        the history: n requests, closeafter as in      *)
(*                            HttpConn.tla                                   *)
(*   req k tag                request k (1..n) was written                    *)
(*   resp k tag status complete bodyok foreign                               *)
(*                            the k-th response the client decoded: the tag   *)
(*                            it carries, completeness, body pattern, and     *)
(*                            whether it contains bytes tagged for ANOTHER    *)
(*                            connection                                      *)
(*   eof after                the server closed; `after` responses were       *)
(*                            complete before                                 *)
(*   open after               the connection was still open t ms after the    *)
(*                            last response                                   *)
(* Client side (nbhttp.Client):  do id / cb id match err                      *)
(***************************************************************************)
EXTENDS Integers, Sequences, FiniteSets, TLC

Fn(f, k, v) == [x \in (DOMAIN f) \cup {k} |-> IF x = k THEN v ELSE f[x]]
MonInit(e) == [n |-> 0, closeafter |-> 0, tags |-> <<>>, nresp |-> 0, dos |-> {}, cbs |-> {}]

Guard(st, e) ==
    CASE e.ev = "resp" -> /\ e.k = st.nresp + 1                          \* in request order, exactly once
                          /\ e.k \in DOMAIN st.tags /\ e.tag = st.tags[e.k]   \* answers THAT request
                          /\ e.complete /\ e.bodyok /\ e.status = 200
                          /\ ~e.foreign                                   \* no bytes of another connection
      [] e.ev = "eof"  -> /\ st.closeafter # 0                            \* closed only if dictated ...
                          /\ e.after = st.closeafter                      \* ... and only after everything was answered
      [] e.ev = "open" -> st.closeafter = 0 /\ e.after = st.n             \* kept open, everything answered
      [] e.ev = "cb"   -> /\ e.id \in st.dos /\ e.id \notin st.cbs        \* callback exactly once
                          /\ (e.err \/ e.match)                           \* with the response of THAT request, or an error
      [] e.ev = "cend" -> st.cbs = st.dos                                 \* every Do got its callback
      [] e.ev = "panic" -> FALSE
      [] OTHER -> TRUE

Effect(st, e) ==
    CASE e.ev = "plan" -> [st EXCEPT !.n = e.n, !.closeafter = e.closeafter]
      [] e.ev = "req"  -> [st EXCEPT !.tags = Fn(@, e.k, e.tag)]
      [] e.ev = "resp" -> [st EXCEPT !.nresp = e.k]
      [] e.ev = "do"   -> [st EXCEPT !.dos = @ \cup {e.id}]
      [] e.ev = "cb"   -> [st EXCEPT !.cbs = @ \cup {e.id}]
      [] OTHER -> st

Why(st, e) ==
    CASE e.ev = "resp" /\ e.foreign -> "a response contains bytes that belong to another connection"
      [] e.ev = "resp" /\ e.k # st.nresp + 1 -> "responses out of order / duplicated"
      [] e.ev = "resp" /\ (e.k \notin DOMAIN st.tags \/ e.tag # st.tags[e.k]) -> "the k-th response does not answer the k-th request"
      [] e.ev = "resp" -> "response incomplete or corrupted"
      [] e.ev = "eof" /\ st.closeafter = 0 -> "the server closed a connection that the request version / Connection header keeps alive (or before answering)"
      [] e.ev = "eof" -> "the server closed the connection before every request was answered completely"
      [] e.ev = "open" /\ st.closeafter # 0 -> "the server kept a connection open that it had to close"
      [] e.ev = "open" -> "a request was never answered"
      [] e.ev = "cb" /\ e.id \in st.cbs -> "client callback invoked twice"
      [] e.ev = "cb" /\ e.id \notin st.dos -> "client callback for an unknown request"
      [] e.ev = "cb" -> "client callback got the response of another request"
      [] e.ev = "cend" -> "a client request never got its callback"
      [] e.ev = "panic" -> "panic"
      [] OTHER -> "event not allowed"
=============================================================================
