------------------------------- MODULE RespMon -------------------------------
(***************************************************************************)
(* Monitors for C09 (response framing) and C11 (pooled-buffer ownership).  *)
(* C09 events of one handler program:                                      *)
(*   reset id focus proto10 reqclose intent                                *)
(*   op k n ret err       result of a Write/WriteString/ReadFrom            *)
(*   wire parsed status body bodyok ct xh trailer leftover chunked hascl    *)
(*        clval second   what net/http's client decodes from the bytes put  *)
(*                       on the connection (second = another response       *)
(*                       follows the first one)                             *)
(* C11 events (allocator interface, buffers identified by their handle):    *)
(*   a op id [id2]        op \in malloc, free, append, appendstr, realloc   *)
(*   aend poison          at the end: bytes of freed buffers unmodified     *)
(***************************************************************************)
EXTENDS Integers, Sequences, FiniteSets, TLC

MonInit(e) == [focus |-> e.focus,
               proto10 |-> IF "proto10" \in DOMAIN e THEN e.proto10 ELSE FALSE,
               intent |-> IF "intent" \in DOMAIN e THEN e.intent ELSE [none |-> TRUE],
               live |-> {}, dead |-> {}]

C09(st) == st.focus = "C09"
C11(st) == st.focus = "C11"

WireOK(st, e) ==
    /\ e.parsed                                   \* exactly one well-formed response ...
    /\ ~e.second /\ e.leftover = 0                \* ... and nothing else on the wire
    /\ e.status = st.intent.code
    /\ e.bodyok /\ e.body = st.intent.body        \* the concatenation of the written bytes
    /\ e.ct = st.intent.ct /\ e.xh = st.intent.xh
    /\ e.trailer = st.intent.trailer
    \* framing chosen consistently
    /\ (e.hascl => (~e.chunked /\ e.clval = st.intent.body))
    /\ (st.proto10 => ~e.chunked)
    /\ (st.intent.trailer # "none" /\ ~st.proto10 => e.chunked)
    /\ (st.intent.clen >= 0 => (e.hascl /\ e.clval = st.intent.clen))

Guard(st, e) ==
    CASE e.ev = "op" -> C09(st) =>
                          IF e.k = "wover" THEN e.err # "nil"                    \* refused with an error
                          ELSE (e.err = "nil" /\ e.ret = e.n)                    \* reports exactly what it was given
      [] e.ev = "wire" -> C09(st) => WireOK(st, e)
      [] e.ev = "a" -> C11(st) =>
            CASE e.op = "malloc" -> e.id \notin st.live
              [] e.op = "free"   -> e.id \in st.live                             \* at most once, only live
              [] OTHER           -> e.id \in st.live                             \* never used after free
      [] e.ev = "aend" -> C11(st) => e.poison
      [] e.ev = "panic" -> FALSE
      [] OTHER -> TRUE

Effect(st, e) ==
    CASE e.ev = "a" /\ e.op = "malloc" -> [st EXCEPT !.live = @ \cup {e.id}, !.dead = @ \ {e.id}]
      [] e.ev = "a" /\ e.op = "free" -> [st EXCEPT !.live = @ \ {e.id}, !.dead = @ \cup {e.id}]
      [] e.ev = "a" /\ e.id2 # e.id -> [st EXCEPT !.live = (@ \ {e.id}) \cup {e.id2}]
      [] OTHER -> st

Why(st, e) ==
    CASE e.ev = "op" /\ e.k = "wover" -> "a write beyond the declared Content-Length was not refused"
      [] e.ev = "op" /\ e.err # "nil" -> "a legal write failed"
      [] e.ev = "op" -> "a successful write did not report the number of bytes it was given"
      [] e.ev = "wire" /\ ~e.parsed -> "the bytes on the wire are not a well-formed HTTP response"
      [] e.ev = "wire" /\ (e.second \/ e.leftover # 0) -> "extra bytes / a second response follow the response on the wire"
      [] e.ev = "wire" /\ e.status # st.intent.code -> "status code differs from the handler's"
      [] e.ev = "wire" /\ (~e.bodyok \/ e.body # st.intent.body) -> "decoded body is not the concatenation of the written bytes"
      [] e.ev = "wire" /\ e.trailer # st.intent.trailer -> "trailers differ from the handler's"
      [] e.ev = "wire" /\ (e.ct # st.intent.ct \/ e.xh # st.intent.xh) -> "headers differ from the handler's"
      [] e.ev = "wire" -> "framing inconsistent with the request version / the handler's headers"
      [] e.ev = "a" /\ e.op = "malloc" -> "allocator handed out a buffer that is still live elsewhere"
      [] e.ev = "a" /\ e.op = "free" /\ e.id \in st.dead -> "buffer returned to the pool twice"
      [] e.ev = "a" /\ e.op = "free" -> "free of a buffer that was never allocated"
      [] e.ev = "a" -> "buffer used (appended to / reallocated) after it was returned to the pool"
      [] e.ev = "aend" -> "bytes of a freed buffer were modified (write after free)"
      [] e.ev = "panic" -> "handler program made the library panic"
      [] OTHER -> "event not allowed"
=============================================================================
