---------------------------- MODULE HttpResponse ----------------------------
(***************************************************************************)
(* Generator-with-meaning for HTTP handler programs (what a handler does   *)
(* with its http.ResponseWriter): header settings, WriteHeader, Write /     *)
(* WriteString / ReadFrom, Flush, trailer operations.  `prog` is the        *)
(* program, `intent` its meaning: the response an independent client must   *)
(* decode.  Programs are well-behaved by construction (a declared           *)
(* Content-Length is met exactly; headers are set before the first write;   *)
(* trailers are declared before the body) except for WOver, a write beyond  *)
(* the declared length, which must be refused with an error.                *)
(***************************************************************************)
EXTENDS Integers, Sequences, FiniteSets, TLC

CONSTANTS Sizes,       \* write sizes
          MaxWrites,   \* body writes per program
          CLs,         \* declared Content-Length values to try
          MaxFlush

VARIABLES stage, prog, clen, te, trdecl, trset, code, written, nw, ct, xh, flushed, hord
vars == <<stage, prog, clen, te, trdecl, trset, code, written, nw, ct, xh, flushed, hord>>

\* header operations are generated in one fixed order (their order does not matter to the meaning)
HIdx(k) == CASE k = "cl" -> 1 [] k = "te" -> 2 [] k = "tr" -> 3 [] k = "ct" -> 4 [] k = "xh" -> 5

Op(k, n) == [k |-> k, n |-> n]
Init == /\ stage = "hdr" /\ prog = <<>> /\ clen = -1 /\ te = FALSE /\ trdecl = FALSE /\ trset = FALSE
        /\ code = 200 /\ written = 0 /\ nw = 0 /\ ct = FALSE /\ xh = FALSE /\ flushed = 0 /\ hord = 0

Hdr(k) == /\ stage = "hdr" /\ HIdx(k) > hord /\ hord' = HIdx(k)
          /\ CASE k = "te" -> ~te /\ clen = -1 /\ te' = TRUE /\ UNCHANGED <<clen, trdecl, ct, xh>>
               [] k = "tr" -> ~trdecl /\ clen = -1 /\ trdecl' = TRUE /\ UNCHANGED <<clen, te, ct, xh>>
               [] k = "ct" -> ~ct /\ ct' = TRUE /\ UNCHANGED <<clen, te, trdecl, xh>>
               [] k = "xh" -> ~xh /\ xh' = TRUE /\ UNCHANGED <<clen, te, trdecl, ct>>
          /\ prog' = Append(prog, Op(k, 0))
          /\ UNCHANGED <<stage, trset, code, written, nw, flushed>>
HdrCL(n) == /\ stage = "hdr" /\ hord = 0 /\ hord' = 1 /\ clen = -1 /\ ~te /\ ~trdecl
            /\ clen' = n /\ prog' = Append(prog, Op("cl", n))
            /\ UNCHANGED <<stage, te, trdecl, trset, code, written, nw, ct, xh, flushed>>
WH(c) == /\ stage = "hdr" /\ code' = c /\ stage' = "body" /\ prog' = Append(prog, Op("wh", c))
         /\ UNCHANGED <<clen, te, trdecl, trset, written, nw, ct, xh, flushed, hord>>
Fits(n) == clen = -1 \/ written + n <= clen
W(k, n) == /\ stage \in {"hdr", "body"} /\ nw < MaxWrites /\ Fits(n)
           /\ prog' = Append(prog, Op(k, n)) /\ written' = written + n /\ nw' = nw + 1 /\ stage' = "body"
           /\ UNCHANGED <<clen, te, trdecl, trset, code, ct, xh, flushed, hord>>
WOver(n) == /\ stage \in {"hdr", "body"} /\ nw < MaxWrites /\ clen > 0 /\ ~Fits(n) /\ n > 0
            /\ prog' = Append(prog, Op("wover", n)) /\ nw' = nw + 1 /\ stage' = "body"
            /\ UNCHANGED <<clen, te, trdecl, trset, code, written, ct, xh, flushed, hord>>
Flush == /\ stage \in {"hdr", "body"} /\ flushed < MaxFlush /\ prog' = Append(prog, Op("flush", 0))
         /\ flushed' = flushed + 1 /\ stage' = "body"
         /\ UNCHANGED <<clen, te, trdecl, trset, code, written, nw, ct, xh, hord>>
TrSet == /\ trdecl /\ ~trset /\ nw > 0 /\ trset' = TRUE /\ prog' = Append(prog, Op("trset", 0))
         /\ UNCHANGED <<stage, clen, te, trdecl, code, written, nw, ct, xh, flushed, hord>>
Done == /\ stage \in {"hdr", "body"} /\ (clen = -1 \/ written = clen)
        /\ stage' = "done" /\ UNCHANGED <<prog, clen, te, trdecl, trset, code, written, nw, ct, xh, flushed, hord>>

Next == \/ \E k \in {"te", "tr", "ct", "xh"} : Hdr(k)
        \/ \E n \in CLs : HdrCL(n)
        \/ \E c \in {200, 404} : WH(c)
        \/ \E k \in {"w", "ws", "rf"}, n \in Sizes : W(k, n)
        \/ \E n \in Sizes : WOver(n)
        \/ Flush \/ TrSet \/ Done
Spec == Init /\ [][Next]_vars
TypeOK == stage \in {"hdr", "body", "done"} /\ written >= 0
\* the meaning of a finished program
Intent == [code |-> code, body |-> written, ct |-> ct, xh |-> xh,
           trailer |-> IF trdecl THEN (IF trset THEN "set" ELSE "empty") ELSE "none",
           clen |-> clen, te |-> te]
=============================================================================
