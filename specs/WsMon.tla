-------------------------------- MODULE WsMon --------------------------------
(***************************************************************************)
(* Monitors for the WebSocket codec, one scenario per reset:               *)
(* C12 sent i typ len sum / got typ len sum / frame ... / end               *)
(* C13 expect delivered pongs closereply failed closed mayfail ;            *)
(*     obs delivered pongs pongok closereply closed err                     *)
(* C15 limit ; deliver len ; result oversize failed code1009 delivered peak *)
(*     ctlsend len err                                                      *)
(* C11 a op id id2 ; aend poison   (as in RespMon)                          *)
(***************************************************************************)
EXTENDS Integers, Sequences, FiniteSets, TLC

MonInit(e) == [focus |-> e.focus, sent |-> <<>>, got |-> <<>>,
               client |-> IF "client" \in DOMAIN e THEN e.client ELSE FALSE,
               compress |-> IF "compress" \in DOMAIN e THEN e.compress ELSE FALSE,
               limit |-> IF "limit" \in DOMAIN e THEN e.limit ELSE 0,
               exp |-> [none |-> TRUE], infrag |-> FALSE, live |-> {}, deadb |-> {}]

F(st, f) == st.focus = f

FrameOK(st, e) ==
    /\ e.masked = st.client                                   \* client masks, server does not
    /\ (e.rsv1 => (st.compress /\ ~st.infrag))                \* RSV1 only on the first frame of a compressed message
    /\ ~e.rsv2 /\ ~e.rsv3
    /\ (e.opcode >= 8 => (e.fin /\ e.len <= 125))
    /\ (e.opcode < 8 => (IF st.infrag THEN e.opcode = 0 ELSE e.opcode \in {1, 2}))
    /\ e.lenminimal                                           \* shortest length encoding

ObsOK(st, e) ==
    LET x == st.exp IN
    /\ e.delivered = x.delivered                              \* nothing containing the offending frame, nothing lost
    /\ e.pongs = x.pongs /\ e.pongok                          \* every ping answered with the same payload
    /\ (x.failed => (e.closed \/ e.err))                      \* the connection is failed
    /\ (x.closereply => (e.closereply /\ e.closed))           \* close answered by close
    /\ ((~x.failed /\ ~x.closed /\ ~x.mayfail) => (~e.closed /\ ~e.err))   \* allowed sequences are accepted

Guard(st, e) ==
    CASE e.ev = "sent"  -> TRUE
      [] e.ev = "got"   -> F(st, "C12") =>
                             /\ Len(st.got) < Len(st.sent)
                             /\ LET s == st.sent[Len(st.got) + 1] IN
                                e.typ = s.typ /\ e.len = s.len /\ e.sum = s.sum
      [] e.ev = "frame" -> F(st, "C12") => FrameOK(st, e)
      [] e.ev = "end"   -> F(st, "C12") => (Len(st.got) = Len(st.sent) /\ ~e.err)
      [] e.ev = "expect" -> TRUE
      [] e.ev = "obs"   -> F(st, "C13") => ObsOK(st, e)
      [] e.ev = "deliver" -> F(st, "C15") => e.len <= st.limit
      [] e.ev = "result" -> F(st, "C15") =>
                             IF e.oversize THEN (e.failed /\ e.code1009 /\ e.delivered = 0
                                                 /\ e.peak <= st.limit + e.slack)
                             ELSE (~e.failed /\ e.delivered = 1)
      [] e.ev = "ctlsend" -> F(st, "C15") => ((e.len > 125) <=> e.err)
      [] e.ev = "retained" -> F(st, "C15") => e.n <= e.readlimit + e.lastread
      [] e.ev = "a" -> F(st, "C11") =>
            CASE e.op = "malloc" -> e.id \notin st.live
              [] e.op = "free"   -> e.id \in st.live
              [] OTHER           -> e.id \in st.live
      [] e.ev = "aend" -> F(st, "C11") => e.poison
      [] e.ev = "panic" -> FALSE
      [] OTHER -> TRUE

Effect(st, e) ==
    CASE e.ev = "sent" -> [st EXCEPT !.sent = Append(@, [typ |-> e.typ, len |-> e.len, sum |-> e.sum])]
      [] e.ev = "got"  -> [st EXCEPT !.got = Append(@, [typ |-> e.typ, len |-> e.len, sum |-> e.sum])]
      [] e.ev = "frame" -> IF e.opcode >= 8 THEN st ELSE [st EXCEPT !.infrag = ~e.fin]
      [] e.ev = "expect" -> [st EXCEPT !.exp = e]
      [] e.ev = "a" /\ e.op = "malloc" -> [st EXCEPT !.live = @ \cup {e.id}, !.deadb = @ \ {e.id}]
      [] e.ev = "a" /\ e.op = "free" -> [st EXCEPT !.live = @ \ {e.id}, !.deadb = @ \cup {e.id}]
      [] OTHER -> st

Why(st, e) ==
    CASE e.ev = "got" /\ Len(st.got) >= Len(st.sent) -> "a message was delivered that was never sent (duplicate)"
      [] e.ev = "got" -> "delivered message differs from the one sent (type / length / content / order)"
      [] e.ev = "frame" /\ e.masked # st.client -> "masking does not match the sender's role"
      [] e.ev = "frame" -> "sender emitted a frame that is not well-formed (RSV / opcode / FIN / length encoding)"
      [] e.ev = "end" /\ e.err -> "receiver rejected what the sender wrote"
      [] e.ev = "end" -> "a sent message was never delivered"
      [] e.ev = "obs" /\ e.delivered # st.exp.delivered -> "delivered messages differ from what RFC 6455 requires (a message containing the offending frame, or a lost message)"
      [] e.ev = "obs" /\ (e.pongs # st.exp.pongs \/ ~e.pongok) -> "ping not answered by a pong with the same payload"
      [] e.ev = "obs" /\ st.exp.failed -> "frame sequence RFC 6455 forbids did not fail the connection"
      [] e.ev = "obs" /\ st.exp.closereply -> "close frame not answered by a close frame"
      [] e.ev = "obs" -> "frame sequence RFC 6455 allows was refused"
      [] e.ev = "deliver" -> "a message larger than the message length limit was delivered"
      [] e.ev = "result" /\ e.oversize /\ e.peak > st.limit + e.slack -> "more than the limit was buffered for an oversize message"
      [] e.ev = "result" /\ e.oversize -> "oversize message did not fail the connection with close code 1009"
      [] e.ev = "result" -> "a message within the limit was refused or lost"
      [] e.ev = "ctlsend" -> "control frame size rule not enforced on send"
      [] e.ev = "retained" -> "buffered unparsed input exceeds the read limit"
      [] e.ev = "a" /\ e.op = "malloc" -> "allocator handed out a buffer that is still live elsewhere"
      [] e.ev = "a" /\ e.op = "free" /\ e.id \in st.deadb -> "buffer returned to the pool twice"
      [] e.ev = "a" /\ e.op = "free" -> "free of a buffer that was never allocated"
      [] e.ev = "a" -> "buffer used after it was returned to the pool"
      [] e.ev = "aend" -> "bytes of a freed buffer were modified (write after free)"
      [] e.ev = "panic" -> "the codec panicked"
      [] OTHER -> "event not allowed"
=============================================================================
