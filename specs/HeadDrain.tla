----------------------------- MODULE HeadDrain -----------------------------
(***************************************************************************)
(* Implementation-level specification of the "first appender starts the   *)
(* single drainer" hand-over protocol that nbio uses three times:          *)
(*                                                                         *)
(*   Conn.Execute / Conn.MustExecute / Conn.execute      (conn.go)         *)
(*   timer.Timer.Async                                   (timer/timer.go)  *)
(*   websocket.Conn send queue                           (websocket/conn.go)*)
(*                                                                         *)
(* Grain: one action = one scheduler step of the real code under the vrt   *)
(* runtime, i.e. "perform the operation the thread is parked at, then run  *)
(* to the next yield point".  Yield points are: Lock of the protecting     *)
(* mutex, a go statement, and the two explicit yields the harness puts at  *)
(* the start and the end of each job body.                                 *)
(*                                                                         *)
(*   submitter s :  SubmitCS(s)   Lock; [closed? -> refuse]; isHead := len=0;*)
(*                                append; Unlock; if isHead -> executor     *)
(*                  Spawn(s)      the go statement of a goroutine executor  *)
(*   drainer  t  :  RunStart(t)   job body begins                           *)
(*                  RunEnd(t)     job body ends (possibly by panic)         *)
(*                  NextCS(t)     Lock; i++; if len = i -> reset, exit      *)
(*                                else job := list[i]; Unlock               *)
(*   closer      :  CloseCS       Lock; closed := TRUE; Unlock              *)
(*                                                                         *)
(* With Executor = "inline" the head submitter itself is the drainer.      *)
(* Variant = "async" is Timer.Async: the drainer takes the lock BEFORE      *)
(* each function (FetchCS) and there is no closed flag.                    *)
(***************************************************************************)
EXTENDS Integers, Sequences, FiniteSets, TLC

CONSTANTS Subs,        \* set of submitter thread names, e.g. {"s1","s2"}
          Prog,        \* [Subs -> Seq({"exec","must"})] the calls each submitter makes, in order
          Executor,    \* "inline" | "go"
          WithClose,   \* BOOLEAN: a closer thread races
          Variant,     \* "conn" | "async"
          MaxSpawn,    \* bound on spawned goroutines (names g1..gMaxSpawn)
          Mutant       \* "" | "headAfterUnlock" | "noReset"  (design-level sensitivity only)

VARIABLES list,      \* the job list (sequence of job ids)
          closed,
          spc,       \* [Subs -> "idle" | "spawn" | "drain"]
          cnt,       \* [Subs -> number of calls made]
          drainers,  \* set of [thr, i, cur, pc]   pc \in {"run","running","next","fetch"}
          nextg,     \* next goroutine number
          ran,       \* history: jobs in start order
          running,   \* jobs whose body is executing
          order,     \* history: accepted jobs in critical-section order
          refused,   \* history: jobs refused by Execute on a closed connection
          closerDone

vars == <<list, closed, spc, cnt, drainers, nextg, ran, running, order, refused, closerDone>>

GNames == {"g1", "g2", "g3", "g4", "g5", "g6", "g7", "g8"}
GName(n) == CHOOSE g \in GNames : g = "g" \o ToString(n)
Threads == Subs \cup {GName(n) : n \in 1..MaxSpawn}

Job(s, k) == <<s, k>>

Init == /\ list = <<>> /\ closed = FALSE
        /\ spc = [s \in Subs |-> "idle"] /\ cnt = [s \in Subs |-> 0]
        /\ drainers = {} /\ nextg = 1 /\ ran = <<>> /\ running = {} /\ order = <<>>
        /\ refused = {} /\ closerDone = FALSE

Drainer(t) == CHOOSE d \in drainers : d.thr = t
IsDrainer(t) == \E d \in drainers : d.thr = t

(* ---- submitter ---- *)
SubmitCS(s) ==
    /\ spc[s] = "idle" /\ cnt[s] < Len(Prog[s])
    /\ LET k    == cnt[s] + 1
           j    == Job(s, k)
           must == Prog[s][k] = "must" \/ Variant = "async"
           head == Len(list) = 0
       IN  IF closed /\ ~must
             THEN /\ refused' = refused \cup {j}
                  /\ UNCHANGED <<list, order, spc, drainers>>
             ELSE /\ list' = Append(list, j) /\ order' = Append(order, j)
                  /\ UNCHANGED refused
                  /\ IF Mutant = "headAfterUnlock"
                       THEN spc' = [spc EXCEPT ![s] = "peek"] /\ UNCHANGED drainers
                       ELSE IF ~head THEN UNCHANGED <<spc, drainers>>
                       ELSE IF Executor = "go" \/ Variant = "async"
                              THEN spc' = [spc EXCEPT ![s] = "spawn"] /\ UNCHANGED drainers
                              ELSE \* inline: the submitter becomes the drainer, parked at the job's start
                                   /\ spc' = [spc EXCEPT ![s] = "drain"]
                                   /\ drainers' = drainers \cup {[thr |-> s, i |-> 0, cur |-> j, pc |-> "run"]}
    /\ cnt' = [cnt EXCEPT ![s] = @ + 1]
    /\ UNCHANGED <<closed, nextg, ran, running, closerDone>>

\* design-level mutant only: isHead evaluated after the unlock
Peek(s) == /\ spc[s] = "peek"
           /\ spc' = [spc EXCEPT ![s] = IF Len(list) = 1 THEN "spawn" ELSE "idle"]
           /\ UNCHANGED <<list, closed, cnt, drainers, nextg, ran, running, order, refused, closerDone>>

Spawn(s) ==
    /\ spc[s] = "spawn" /\ nextg <= MaxSpawn
    /\ drainers' = drainers \cup
         {[thr |-> GName(nextg), i |-> 0, cur |-> Job(s, cnt[s]),
           pc |-> IF Variant = "async" THEN "fetch" ELSE "run"]}
    /\ nextg' = nextg + 1
    /\ spc' = [spc EXCEPT ![s] = "idle"]
    /\ UNCHANGED <<list, closed, cnt, ran, running, order, refused, closerDone>>

(* ---- drainer ---- *)
Upd(d, e) == (drainers \ {d}) \cup {e}

RunStart(t) ==
    /\ IsDrainer(t) /\ LET d == Drainer(t) IN
       /\ d.pc = "run"
       /\ running' = running \cup {d.cur} /\ ran' = Append(ran, d.cur)
       /\ drainers' = Upd(d, [d EXCEPT !.pc = "running"])
    /\ UNCHANGED <<list, closed, spc, cnt, nextg, order, refused, closerDone>>

RunEnd(t) ==
    /\ IsDrainer(t) /\ LET d == Drainer(t) IN
       /\ d.pc = "running"
       /\ running' = running \ {d.cur}
       /\ drainers' = Upd(d, [d EXCEPT !.pc = IF Variant = "async" THEN "fetch" ELSE "next"])
    /\ UNCHANGED <<list, closed, spc, cnt, nextg, ran, order, refused, closerDone>>

\* Conn.execute: after a job, under the lock: i++ ; if len = i then reset and exit else next job
NextCS(t) ==
    /\ Variant = "conn"
    /\ IsDrainer(t) /\ LET d == Drainer(t)  i2 == d.i + 1 IN
       /\ d.pc = "next"
       /\ IF Len(list) <= i2
            THEN /\ list' = IF Mutant = "noReset" THEN list ELSE <<>>
                 /\ drainers' = drainers \ {d}
                 /\ spc' = IF d.thr \in Subs THEN [spc EXCEPT ![d.thr] = "idle"] ELSE spc
            ELSE /\ drainers' = Upd(d, [d EXCEPT !.i = i2, !.cur = list[i2 + 1], !.pc = "run"])
                 /\ UNCHANGED <<list, spc>>
    /\ UNCHANGED <<closed, cnt, nextg, ran, running, order, refused, closerDone>>

\* Timer.Async: before each function, under the lock: if i = len then reset and exit else f := list[i]; i++
FetchCS(t) ==
    /\ Variant = "async"
    /\ IsDrainer(t) /\ LET d == Drainer(t) IN
       /\ d.pc = "fetch"
       /\ IF d.i = Len(list)
            THEN /\ list' = IF Mutant = "noReset" THEN list ELSE <<>>
                 /\ drainers' = drainers \ {d}
            ELSE /\ drainers' = Upd(d, [d EXCEPT !.i = d.i + 1, !.cur = list[d.i + 1], !.pc = "run"])
                 /\ UNCHANGED list
    /\ UNCHANGED <<closed, spc, cnt, nextg, ran, running, order, refused, closerDone>>

(* ---- closer ---- *)
CloseCS == /\ WithClose /\ Variant = "conn" /\ ~closerDone
           /\ closed' = TRUE /\ closerDone' = TRUE
           /\ UNCHANGED <<list, spc, cnt, drainers, nextg, ran, running, order, refused>>

Step(t) == \/ (t \in Subs /\ (SubmitCS(t) \/ Spawn(t) \/ Peek(t)))
           \/ RunStart(t) \/ RunEnd(t) \/ NextCS(t) \/ FetchCS(t)

Next == (\E t \in Threads : Step(t)) \/ CloseCS

Spec == Init /\ [][Next]_vars /\ \A t \in Threads : WF_vars(Step(t))

(* ---- properties ---- *)
IsPrefix(a, b) == Len(a) <= Len(b) /\ \A i \in 1..Len(a) : a[i] = b[i]

TypeOK == /\ closed \in BOOLEAN /\ nextg \in 1..(MaxSpawn + 1)
          /\ \A s \in Subs : spc[s] \in {"idle", "spawn", "drain", "peek"}
OneAtATime == Cardinality(running) <= 1
OneDrainer == Cardinality(drainers) <= 1
Fifo == IsPrefix(ran, order)                       \* started in submission order, each at most once
Quiet == drainers = {} /\ \A s \in Subs : spc[s] = "idle"
NoLostJob == Quiet => ran = order                  \* exactly once at quiescence
RefusedNeverRun == \A k \in 1..Len(ran) : ran[k] \notin refused
RefusedOnlyClosed == refused # {} => closed
ListTracksBacklog == Quiet => list = <<>>
AllRun == <>[](ran = order)                        \* liveness: every accepted job eventually starts

\* exploration helper: states in which every submitter finished its program
Finished == Quiet /\ \A s \in Subs : cnt[s] = Len(Prog[s])
=============================================================================
