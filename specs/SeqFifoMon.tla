----------------------------- MODULE SeqFifoMon -----------------------------
(***************************************************************************)
(* Constant-size FIFO monitor for ONE sequential submitter (C19: functions *)
(* passed to the engine's asynchronous queue run exactly once each, in     *)
(* FIFO order).  Functions are numbered 1, 2, ... in submission order.     *)
(*   call k / start k / end k / quiesce                                    *)
(***************************************************************************)
EXTENDS Integers, Sequences, TLC
MonInit(e) == [called |-> 0, started |-> 0, ended |-> 0, running |-> FALSE]
Guard(st, e) ==
    CASE e.ev = "call"  -> e.k = st.called + 1
      [] e.ev = "start" -> e.k = st.started + 1 /\ e.k <= st.called /\ ~st.running
      [] e.ev = "end"   -> st.running /\ e.k = st.started
      [] e.ev = "quiesce" -> ~st.running /\ st.ended = st.called
      [] e.ev = "panic" -> FALSE
      [] OTHER -> TRUE
Effect(st, e) ==
    CASE e.ev = "call"  -> [st EXCEPT !.called = e.k]
      [] e.ev = "start" -> [st EXCEPT !.started = e.k, !.running = TRUE]
      [] e.ev = "end"   -> [st EXCEPT !.ended = @ + 1, !.running = FALSE]
      [] OTHER -> st
Why(st, e) ==
    CASE e.ev = "start" /\ e.k <= st.started -> "function ran twice or out of FIFO order (earlier index)"
      [] e.ev = "start" /\ e.k > st.started + 1 -> "function ran before an earlier queued function (not FIFO / function skipped)"
      [] e.ev = "start" /\ st.running -> "two queued functions overlap"
      [] e.ev = "start" -> "function ran that was never queued"
      [] e.ev = "quiesce" -> "queued function never ran (lost)"
      [] e.ev = "panic" -> "a panic escaped (would crash the process)"
      [] OTHER -> "event not allowed"
=============================================================================
