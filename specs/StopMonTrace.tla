--------------------------- MODULE StopMonTrace ---------------------------
EXTENDS StopMon
VARIABLES l, st, dead, bad, nscen
D == INSTANCE MonDriver WITH MonInit <- MonInit, Guard <- Guard, Effect <- Effect, Why <- Why
TraceSpec == D!DSpec
Report == D!Report
=============================================================================
