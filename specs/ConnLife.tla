------------------------------ MODULE ConnLife ------------------------------
(***************************************************************************)
(* Implementation-level specification of connection termination in         *)
(* nbio.Conn (closeWithError / closeWithErrorWithoutLock, the error paths   *)
(* of Write, the poller's handling of a peer hang-up) at the grain of the   *)
(* vrt runtime: one action = one thread step from a yield point (Lock of    *)
(* the connection mutex, syscall on the descriptor) to the next.  The       *)
(* replay driver continues eagerly after every step that closes the         *)
(* connection, so the tear-down (queue release, removal from the table,     *)
(* close notification) belongs to the step that set `closed`.               *)
(*                                                                         *)
(*  closer t :  CLock   Lock; if closed -> return nil                       *)
(*                      else closed := TRUE, stop timers; Unlock; tear down *)
(*                      (parked at close(fd))                               *)
(*              CFd     close(fd); return                                   *)
(*  writer w :  WLock   Lock; closed -> ErrClosed  else parked at write()   *)
(*              WSys    write ok -> Unlock, return | injected error ->      *)
(*                      closed := TRUE; Unlock; tear down (parked at close) *)
(*              WFd     close(fd)                                           *)
(*  poller   :  PWait   epoll_wait reports the hang-up (IN|RDHUP|HUP)       *)
(*              PRLock  ReadAndGetConn: Lock; closed -> ErrClosed path       *)
(*              PRSys   read() = 0                                          *)
(*              PCLock  closeWithError(io.EOF): as CLock                    *)
(*              PFd     close(fd)                                           *)
(***************************************************************************)
EXTENDS Integers, Sequences, FiniteSets, TLC

CONSTANTS Closers, Writers, FailWriters,   \* FailWriters \subseteq Writers: their write() fails with EPIPE
          WithPeerClose

VARIABLES closed, winner, intable, fdcloses, mux, pc, peershut, rdy, reg,
          notified,    \* sequence of causes for which the close notification was issued
          retd,        \* closers whose Close call has returned
          late         \* ghost: a syscall was issued on the descriptor after it was closed
vars == <<closed, winner, intable, fdcloses, mux, pc, peershut, rdy, reg, notified, retd, late>>

Threads == Closers \cup Writers \cup {"p"}

Init == /\ closed = FALSE /\ winner = "none" /\ intable = TRUE /\ fdcloses = 0 /\ mux = "none"
        /\ pc = [t \in Threads |-> IF t = "p" THEN "wait" ELSE "start"]
        /\ peershut = FALSE /\ rdy = FALSE /\ reg = TRUE /\ notified = <<>> /\ retd = {} /\ late = FALSE

\* the critical section of closeWithError executed by thread t with cause c, and the eager tear-down
CloseCS(t, c, wonpc, lostpc) ==
    IF closed
      THEN /\ pc' = [pc EXCEPT ![t] = lostpc] /\ UNCHANGED <<closed, winner, intable, notified>>
      ELSE /\ closed' = TRUE /\ winner' = t /\ intable' = FALSE /\ notified' = Append(notified, c)
           /\ pc' = [pc EXCEPT ![t] = wonpc]

CloseFd(t, nextpc) ==
    /\ fdcloses' = fdcloses + 1 /\ reg' = FALSE /\ rdy' = FALSE
    /\ pc' = [pc EXCEPT ![t] = nextpc]

(* ---- closers ---- *)
CLock(t) == /\ t \in Closers /\ pc[t] = "start" /\ mux = "none"
            /\ CloseCS(t, t, "fd", "done")
            /\ retd' = IF closed THEN retd \cup {t} ELSE retd
            /\ UNCHANGED <<fdcloses, mux, peershut, rdy, reg, late>>
CFd(t) == /\ t \in Closers /\ pc[t] = "fd" /\ CloseFd(t, "done") /\ retd' = retd \cup {t}
          /\ UNCHANGED <<closed, winner, intable, mux, peershut, notified, late>>

(* ---- writers ---- *)
WLock(t) == /\ t \in Writers /\ pc[t] = "start" /\ mux = "none"
            /\ IF closed THEN pc' = [pc EXCEPT ![t] = "done"] /\ UNCHANGED mux
               ELSE pc' = [pc EXCEPT ![t] = "sys"] /\ mux' = t
            /\ UNCHANGED <<closed, winner, intable, fdcloses, peershut, rdy, reg, notified, retd, late>>
WSys(t) == /\ t \in Writers /\ pc[t] = "sys"
           /\ mux' = "none"
           /\ late' = (late \/ fdcloses > 0)
           /\ IF t \in FailWriters \/ peershut          \* EPIPE (injected, or the peer is gone)
                THEN CloseCS(t, "werr", "fd", "done")
                ELSE pc' = [pc EXCEPT ![t] = "done"] /\ UNCHANGED <<closed, winner, intable, notified>>
           /\ UNCHANGED <<fdcloses, peershut, rdy, reg, retd>>
WFd(t) == /\ t \in Writers /\ pc[t] = "fd" /\ CloseFd(t, "done")
          /\ UNCHANGED <<closed, winner, intable, mux, peershut, notified, retd, late>>

(* ---- poller ---- *)
PWait == /\ pc["p"] = "wait" /\ rdy /\ reg
         /\ pc' = [pc EXCEPT !["p"] = IF intable THEN "rlock" ELSE "wait"]
         /\ rdy' = rdy                                \* level-triggered: stays ready while the hang-up persists
         /\ UNCHANGED <<closed, winner, intable, fdcloses, mux, peershut, reg, notified, retd, late>>
PRLock == /\ pc["p"] = "rlock" /\ mux = "none"
          /\ IF closed THEN pc' = [pc EXCEPT !["p"] = "clock2"] /\ UNCHANGED mux   \* ErrClosed -> closeWithError(err)
             ELSE pc' = [pc EXCEPT !["p"] = "rsys"] /\ mux' = "p"
          /\ UNCHANGED <<closed, winner, intable, fdcloses, peershut, rdy, reg, notified, retd, late>>
PRSys == /\ pc["p"] = "rsys" /\ mux' = "none" /\ late' = (late \/ fdcloses > 0)
         /\ pc' = [pc EXCEPT !["p"] = "clock"]        \* read() = 0, loop ends; the event carries RDHUP -> closeWithError(io.EOF)
         /\ UNCHANGED <<closed, winner, intable, fdcloses, peershut, rdy, reg, notified, retd>>
PCLock == /\ pc["p"] \in {"clock", "clock2"} /\ mux = "none"
          /\ IF pc["p"] = "clock2"
               THEN CloseCS("p", "eof", "fd", "clock")      \* (closed already: falls through to the RDHUP close)
               ELSE CloseCS("p", "eof", "fd", "wait")
          /\ UNCHANGED <<fdcloses, mux, peershut, rdy, reg, retd, late>>
PFd == /\ pc["p"] = "fd" /\ CloseFd("p", "wait")
       /\ UNCHANGED <<closed, winner, intable, mux, peershut, notified, retd, late>>

(* ---- environment ---- *)
PeerClose == /\ WithPeerClose /\ ~peershut /\ peershut' = TRUE /\ rdy' = reg
             /\ UNCHANGED <<closed, winner, intable, fdcloses, mux, pc, reg, notified, retd, late>>

Next == \/ \E t \in Closers : CLock(t) \/ CFd(t)
        \/ \E t \in Writers : WLock(t) \/ WSys(t) \/ WFd(t)
        \/ PWait \/ PRLock \/ PRSys \/ PCLock \/ PFd
        \/ PeerClose
Spec == Init /\ [][Next]_vars /\ WF_vars(Next)

(* ---- properties ---- *)
NotifiedOnce  == Len(notified) <= 1                              \* at most one close notification
FdClosedOnce  == fdcloses <= 1                                   \* the descriptor is closed at most once
TableBeforeFd == fdcloses > 0 => ~intable                        \* removed from the table before close(fd)
NoLateSyscall == ~late                                           \* nothing touches the descriptor after close
Quiet == \A t \in Threads : pc[t] \in {"done", "wait"}
ExactlyOnceAtQuiescence == (Quiet /\ closed) => (Len(notified) = 1 /\ fdcloses = 1)
FirstCause == Len(notified) = 1 => notified[1] = (IF winner \in Closers THEN winner
                                                   ELSE IF winner = "p" THEN "eof" ELSE "werr")
=============================================================================
