----------------------------- MODULE DeadlineMon -----------------------------
(***************************************************************************)
(* Property-level monitor for C16; times in microseconds on the driver's   *)
(* monotonic clock.  Events of one connection:                             *)
(*   set kind at          a deadline of that kind now stands at `at`        *)
(*                        (kind \in "r", "w")                               *)
(*   clear kind           cleared by the zero time / a draining write /     *)
(*                        the stack's own rule                              *)
(*   closeop              the application closed the connection             *)
(*   onclose err at       close notification (err: "rtimeout", "wtimeout",  *)
(*                        or anything else)                                 *)
(*   end at closed        the driver stopped observing                      *)
(*   slack                (in reset) tolerated lateness                     *)
(***************************************************************************)
EXTENDS Integers, Sequences, FiniteSets, TLC

\* prev / prevts: the deadline state that was replaced by the most recent set/clear, and when.  The close
\* notification is delivered asynchronously: a timer that fired just before the application's latest
\* operation may be notified just after it, so a notification is also accepted if it is valid for the state
\* that stood until less than `lag` before it.
MonInit(e) == [r |-> 0, w |-> 0, closedop |-> FALSE, closed |-> FALSE, slack |-> e.slack, lag |-> e.lag,
               pr |-> 0, pw |-> 0, prevts |-> 0]

ValidFor(r, w, st, e) ==
    /\ (e.err = "rtimeout" => (r # 0 /\ e.at >= r /\ e.at <= r + st.slack))
    /\ (e.err = "wtimeout" => (w # 0 /\ e.at >= w /\ e.at <= w + st.slack))

Guard(st, e) ==
    CASE e.ev = "onclose" ->
            /\ ~st.closed
            /\ \/ ValidFor(st.r, st.w, st, e)                               \* never early, on time, never stale
               \/ (e.at - st.prevts <= st.lag /\ ValidFor(st.pr, st.pw, st, e))
      [] e.ev = "end" -> e.closed \/ ((st.r = 0 \/ e.at <= st.r + st.slack) /\ (st.w = 0 \/ e.at <= st.w + st.slack))
      [] OTHER -> TRUE

Effect(st, e) ==
    CASE e.ev = "set" -> IF e.kind = "r" THEN [st EXCEPT !.r = e.at, !.pr = st.r, !.pw = st.w, !.prevts = e.ts]
                                         ELSE [st EXCEPT !.w = e.at, !.pr = st.r, !.pw = st.w, !.prevts = e.ts]
      [] e.ev = "clear" -> IF e.kind = "r" THEN [st EXCEPT !.r = 0, !.pr = st.r, !.pw = st.w, !.prevts = e.ts]
                                           ELSE [st EXCEPT !.w = 0, !.pr = st.r, !.pw = st.w, !.prevts = e.ts]
      [] e.ev = "closeop" -> [st EXCEPT !.closedop = TRUE, !.r = 0, !.w = 0, !.pr = st.r, !.pw = st.w, !.prevts = e.ts]
      [] e.ev = "onclose" -> [st EXCEPT !.closed = TRUE]
      [] OTHER -> st

Why(st, e) ==
    CASE e.ev = "onclose" /\ st.closed -> "second close notification"
      [] e.ev = "onclose" /\ e.err = "rtimeout" /\ st.r = 0 -> "read timeout although no read deadline is set (stale timer)"
      [] e.ev = "onclose" /\ e.err = "wtimeout" /\ st.w = 0 -> "write timeout although no write deadline is set (stale timer)"
      [] e.ev = "onclose" /\ e.err = "rtimeout" /\ e.at < st.r -> "closed before the read deadline"
      [] e.ev = "onclose" /\ e.err = "wtimeout" /\ e.at < st.w -> "closed before the write deadline"
      [] e.ev = "onclose" -> "deadline fired too late"
      [] e.ev = "end" -> "a deadline that was not renewed or cleared did not close the connection"
      [] OTHER -> "event not allowed"
=============================================================================
