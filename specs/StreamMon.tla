----------------------------- MODULE StreamMon -----------------------------
(***************************************************************************)
(* Property-level monitor for the outbound byte stream of ONE connection:  *)
(*   C01 integrity, C04 drain liveness (safety form at quiescence),        *)
(*   C17 write-buffer bound.                                               *)
(*                                                                         *)
(* Observable events (recorded at the API and at the kernel / peer):       *)
(*   reset   id focus maxwb lin                                            *)
(*   call    sid op n buf      a Write/Writev/Sendfile call with n bytes   *)
(*                             (stream sid) is about to be made; buf says  *)
(*                             whether its bytes are held in memory when    *)
(*                             queued (Write/Writev) or not (Sendfile)     *)
(*   ret     sid n err         it returned (n, err); err is "nil",         *)
(*                             "closed", "overflow" or "other"             *)
(*   take    sid lo hi         the kernel (simulated runs) / the peer      *)
(*                             (real runs) got bytes [lo,hi) of stream sid; *)
(*                             sid = -1: bytes that belong to no stream    *)
(*   onclose err               the close notification                      *)
(*   quiesce open queued       the peer has read everything the kernel     *)
(*                             held, kept reading, and the library is idle  *)
(*                             with nothing left that could wake it;        *)
(*                             queued = bytes still held in user space     *)
(*                             (diagnosis only: separates loss from stall) *)
(*                                                                         *)
(* focus selects which clauses are enforced ("C01", "C04", "C17").         *)
(* lin = TRUE: call events appear in the order of the calls' critical       *)
(* sections (cooperative replay); FALSE: only real-time order is known.     *)
(***************************************************************************)
EXTENDS Integers, Sequences, FiniteSets, TLC

Fn(f, k, v) == [x \in (DOMAIN f) \cup {k} |-> IF x = k THEN v ELSE f[x]]

MonInit(e) == [focus |-> e.focus, maxwb |-> e.maxwb, lin |-> e.lin,
               called |-> {}, size |-> <<>>, isbuf |-> <<>>, del |-> <<>>,
               ret |-> <<>>,            \* sid -> [n, err]
               cur |-> -1,              \* stream being delivered
               pred |-> <<>>,           \* sid -> streams that must be delivered before it
               overtaken |-> {},        \* predecessors with unknown outcome that were overtaken
               accBuf |-> 0,            \* bytes of accepted in-memory calls
               takenBuf |-> 0,          \* bytes of in-memory streams taken by the kernel
               bk |-> <<>>,             \* sid -> true backlog just before the call
               dk |-> <<>>,             \* sid -> in-memory bytes (of any call) the kernel took while the call was in
                                        \* progress: they may have left the backlog before the call was linearized
               ak |-> <<>>,             \* sid -> in-memory bytes of OTHER calls accepted while the call was in progress:
                                        \* they may have joined the backlog before the call was linearized
               incall |-> {},
               closed |-> FALSE,        \* close notification seen
               mustclose |-> FALSE]     \* an overflow was reported: the connection has to close

Returned(st, s) == s \in DOMAIN st.ret
Accepted(st, s) == Returned(st, s) /\ st.ret[s].err = "nil"
Failed(st, s)   == Returned(st, s) /\ st.ret[s].err # "nil"
Complete(st, s) == st.del[s] = st.size[s] \/ Failed(st, s)

C01(st) == st.focus = "C01"
C04(st) == st.focus = "C04"
C17(st) == st.focus = "C17" /\ st.maxwb > 0

(* ---- the clauses, named so that Why can cite them ---- *)
RetWhole(st, e)     == (e.err = "nil") => (e.n = st.size[e.sid])
RetNotOvertaken(st, e) == (e.err = "nil") => (e.sid \notin st.overtaken)
TakeKnown(st, e)    == e.sid # -1 /\ e.sid \in st.called
TakeContig(st, e)   == e.lo = st.del[e.sid] /\ e.hi <= st.size[e.sid] /\ e.lo < e.hi
TakeNoInterleave(st, e) == (e.sid # st.cur /\ st.cur # -1) => Complete(st, st.cur)
TakeOrder(st, e)    == (e.sid # st.cur) =>
                          \A p \in st.pred[e.sid] : Complete(st, p) \/ ~Returned(st, p)
TakeNotFailed(st, e) == ~(Failed(st, e.sid) /\ st.ret[e.sid].err \in {"closed", "overflow"} /\ st.ret[e.sid].n <= 0
                          /\ st.del[e.sid] = 0)
QuiesceAll(st, e)   == e.open => \A s \in st.called : Accepted(st, s) => st.del[s] = st.size[s]
\* C17: two-sided acceptance rule and the bound itself
FitsAccepted(st, e) == (e.err = "overflow") => (st.bk[e.sid] + st.ak[e.sid] + st.size[e.sid] > st.maxwb)
BoundHeld(st, e)    == (e.err = "nil" /\ st.isbuf[e.sid]) =>
                          (st.bk[e.sid] + st.size[e.sid] - st.dk[e.sid] <= st.maxwb)
OverflowCloses(st, e) == st.mustclose => st.closed

Guard(st, e) ==
    CASE e.ev = "call"  -> e.sid \notin st.called
      [] e.ev = "ret"   -> /\ e.sid \in st.called /\ ~Returned(st, e.sid)
                           /\ (C01(st) => RetWhole(st, e) /\ RetNotOvertaken(st, e))
                           /\ (C17(st) /\ st.isbuf[e.sid] /\ ~st.closed /\ st.size[e.sid] > 0
                                 => FitsAccepted(st, e) /\ BoundHeld(st, e))
      [] e.ev = "take"  -> C01(st) => /\ TakeKnown(st, e) /\ TakeContig(st, e)
                                      /\ TakeNoInterleave(st, e) /\ TakeOrder(st, e)
                                      /\ TakeNotFailed(st, e)
      [] e.ev = "onclose" -> TRUE
      [] e.ev = "quiesce" -> /\ (C04(st) => QuiesceAll(st, e))
                             /\ (C01(st) => QuiesceAll(st, e))
                             /\ (C17(st) => OverflowCloses(st, e))
      [] e.ev = "panic" -> FALSE
      [] e.ev = "stuck" -> FALSE
      [] OTHER -> TRUE

Effect(st, e) ==
    CASE e.ev = "call"  -> [st EXCEPT !.called = @ \cup {e.sid},
                                      !.size = Fn(@, e.sid, e.n), !.isbuf = Fn(@, e.sid, e.buf),
                                      !.del = Fn(@, e.sid, 0),
                                      !.pred = Fn(@, e.sid, IF st.lin THEN st.called
                                                            ELSE {p \in st.called : Returned(st, p)}),
                                      !.bk = Fn(@, e.sid, st.accBuf - st.takenBuf),
                                      !.dk = Fn(@, e.sid, 0), !.ak = Fn(@, e.sid, 0),
                                      !.incall = @ \cup {e.sid}]
      [] e.ev = "ret"   -> [st EXCEPT !.ret = Fn(@, e.sid, [n |-> e.n, err |-> e.err]),
                                      !.incall = @ \ {e.sid},
                                      !.accBuf = IF e.err = "nil" /\ st.isbuf[e.sid] THEN @ + st.size[e.sid] ELSE @,
                                      !.ak = IF e.err = "nil" /\ st.isbuf[e.sid]
                                               THEN [s \in DOMAIN @ |-> IF s \in st.incall \ {e.sid} THEN @[s] + st.size[e.sid] ELSE @[s]]
                                               ELSE @,
                                      !.mustclose = @ \/ e.err = "overflow"]
      [] e.ev = "take"  -> IF e.sid = -1 \/ e.sid \notin st.called THEN st
                           ELSE [st EXCEPT !.del = Fn(@, e.sid, IF e.hi > @[e.sid] THEN e.hi ELSE @[e.sid]),
                                           !.cur = e.sid,
                                           !.overtaken = IF e.sid # st.cur
                                                           THEN @ \cup {p \in st.pred[e.sid] :
                                                                           ~Returned(st, p) /\ st.del[p] < st.size[p]}
                                                           ELSE @,
                                           !.takenBuf = IF st.isbuf[e.sid] /\ ~e.peer THEN @ + (e.hi - e.lo) ELSE @,
                                           !.dk = IF st.isbuf[e.sid] /\ ~e.peer
                                                    THEN [s \in DOMAIN @ |-> IF s \in st.incall THEN @[s] + (e.hi - e.lo) ELSE @[s]]
                                                    ELSE @]
      [] e.ev = "onclose" -> [st EXCEPT !.closed = TRUE]
      \* real-socket runs of C17: the syscall recorder reports how many bytes of in-memory calls the
      \* kernel accepted (contents are only seen by the peer, later)
      [] e.ev = "ktaken" -> [st EXCEPT !.takenBuf = @ + e.n,
                                       !.dk = [s \in DOMAIN @ |-> IF s \in st.incall THEN @[s] + e.n ELSE @[s]]]
      [] OTHER -> st

Why(st, e) ==
    CASE e.ev = "call" -> "stream id reused (recorder error)"
      [] e.ev = "ret" /\ (e.sid \notin st.called \/ Returned(st, e.sid)) -> "return without call (recorder error)"
      [] e.ev = "ret" /\ C01(st) /\ ~RetWhole(st, e) -> "call returned without error but reported fewer/more bytes than it was given"
      [] e.ev = "ret" /\ C01(st) /\ ~RetNotOvertaken(st, e) -> "bytes of a later call were sent before the bytes of this accepted call"
      [] e.ev = "ret" /\ C17(st) /\ ~FitsAccepted(st, e) -> "a write that fits into the write-buffer budget was refused with the overflow error"
      [] e.ev = "ret" /\ C17(st) -> "a write was accepted although the held backlog then exceeds the configured maximum"
      [] e.ev = "take" /\ ~TakeKnown(st, e) -> "bytes that belong to no accepted call reached the peer (altered / garbage)"
      [] e.ev = "take" /\ e.lo > st.del[e.sid] -> "bytes were skipped (lost or reordered)"
      [] e.ev = "take" /\ e.lo < st.del[e.sid] -> "bytes were delivered twice"
      [] e.ev = "take" /\ ~TakeContig(st, e) -> "more bytes than the call was given"
      [] e.ev = "take" /\ ~TakeNoInterleave(st, e) -> "bytes of two calls are interleaved"
      [] e.ev = "take" /\ ~TakeOrder(st, e) -> "bytes of a later call were sent before an earlier accepted call was complete"
      [] e.ev = "take" -> "bytes of a refused call were sent"
      [] e.ev = "quiesce" /\ C17(st) /\ ~OverflowCloses(st, e) -> "overflow error reported but the connection was not closed"
      [] e.ev = "quiesce" /\ e.queued = 0 -> "accepted bytes were never delivered and are not queued any more (lost)"
      [] e.ev = "quiesce" -> "backlog stalled: the peer drained everything, the library is idle, accepted bytes are still queued"
      [] e.ev = "panic" -> "a panic escaped from a library goroutine (would crash the process)"
      [] e.ev = "stuck" -> "execution did not quiesce"
      [] OTHER -> "event not allowed"
=============================================================================
