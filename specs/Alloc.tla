-------------------------------- MODULE Alloc --------------------------------
(***************************************************************************)
(* The allocator contract (mempool.Allocator: pooled, size-aligned,        *)
(* standard) as an abstract state machine over K buffer slots.  It is both *)
(* the GENERATOR of allocator programs (TLC enumerates its state graph;    *)
(* every operation from every abstract state becomes part of a replayed    *)
(* program) and -- through AllocMon -- the meaning of each operation.       *)
(***************************************************************************)
EXTENDS Integers, Sequences, FiniteSets, TLC
CONSTANTS K, Sizes, MaxLen, MaxGrow      \* MaxGrow bounds the appends/reallocs per buffer (finite graph)
VARIABLES live,          \* [1..K -> -1 (no buffer) | length]
          grow           \* [1..K -> number of Append/Realloc calls since Malloc]
vars == <<live, grow>>
Init == live = [i \in 1..K |-> -1] /\ grow = [i \in 1..K |-> 0]
Malloc(i, n)    == live[i] = -1 /\ live' = [live EXCEPT ![i] = n] /\ grow' = [grow EXCEPT ![i] = 0]
G(i) == grow[i] < MaxGrow /\ grow' = [grow EXCEPT ![i] = @ + 1]
AppendB(i, n)   == live[i] >= 0 /\ live[i] + n <= MaxLen /\ live' = [live EXCEPT ![i] = @ + n] /\ G(i)
AppendStr(i, n) == live[i] >= 0 /\ live[i] + n <= MaxLen /\ live' = [live EXCEPT ![i] = @ + n] /\ G(i)
Realloc(i, n)   == live[i] >= 0 /\ live' = [live EXCEPT ![i] = n] /\ G(i)
Free(i)         == live[i] >= 0 /\ live' = [live EXCEPT ![i] = -1] /\ UNCHANGED grow
Next == \E i \in 1..K : \/ Free(i)
                        \/ \E n \in Sizes : Malloc(i, n) \/ AppendB(i, n) \/ AppendStr(i, n) \/ Realloc(i, n)
Spec == Init /\ [][Next]_vars
TypeOK == \A i \in 1..K : live[i] >= -1 /\ live[i] <= MaxLen
=============================================================================
