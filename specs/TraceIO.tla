------------------------------ MODULE TraceIO ------------------------------
(* Reading recorded traces (newline-delimited JSON) and writing monitor verdicts. *)
EXTENDS Integers, Sequences, TLC, Json, IOUtils

Trace   == ndJsonDeserialize(IOEnv.VERIF_TRACE)
OutFile == IOEnv.VERIF_MONOUT

Has(e, k) == k \in DOMAIN e
Get(e, k, dflt) == IF k \in DOMAIN e THEN e[k] ELSE dflt
=============================================================================
