package hlib

// Self-describing payloads (DESIGN.md 2.4).  Every call gets a stream id; the bytes of stream s are a
// deterministic function of (s, offset): the first 16 bytes are unique across the first 16 streams
// (so that one-byte writes decode unambiguously), the rest is a keyed pseudo-random sequence.  The
// decoder knows all streams and turns any received byte string into maximal ranges
// (stream, lo, hi) or garbage.  A correct delivery (continuation of the current stream, or the
// beginning of a not yet started stream) is always tried first, so it can never be mis-decoded.

func payloadByte(sid, off int) byte {
	if off < 16 && sid < 16 {
		return byte(sid*16 + off)
	}
	x := uint64(sid)*0x9E3779B97F4A7C15 + uint64(off)*0xBF58476D1CE4E5B9 + 0x94D049BB133111EB
	x ^= x >> 31
	x *= 0xD6E8FEB86659FD93
	x ^= x >> 29
	return byte(x>>17) | 0x80 // never collides with the small unique prefix bytes of low streams... mostly
}

// Payload returns n bytes of stream sid starting at offset off.
func Payload(sid, off, n int) []byte {
	b := make([]byte, n)
	for i := range b {
		b[i] = payloadByte(sid, off+i)
	}
	return b
}

// Range is a decoded piece of a received byte string.
type Range struct {
	Sid    int // -1: garbage
	Lo, Hi int
}

// Decoder decodes received bytes into ranges.
type Decoder struct {
	size      map[int]int
	delivered map[int]int
	order     []int
	cur       int
}

func NewDecoder() *Decoder {
	return &Decoder{size: map[int]int{}, delivered: map[int]int{}, cur: -1}
}

// AddStream registers stream sid of n bytes.
func (d *Decoder) AddStream(sid, n int) {
	d.size[sid] = n
	d.order = append(d.order, sid)
}

func (d *Decoder) match(sid, off int, p []byte) int {
	n := 0
	for n < len(p) && off+n < d.size[sid] && p[n] == payloadByte(sid, off+n) {
		n++
	}
	return n
}

// Decode consumes p and returns the ranges it consists of.
func (d *Decoder) Decode(p []byte) []Range {
	var out []Range
	emit := func(r Range) {
		if len(out) > 0 {
			l := &out[len(out)-1]
			if l.Sid == r.Sid && l.Hi == r.Lo {
				l.Hi = r.Hi
				return
			}
		}
		out = append(out, r)
	}
	for len(p) > 0 {
		// 1. continuation of the current stream
		if d.cur >= 0 && d.delivered[d.cur] < d.size[d.cur] {
			if n := d.match(d.cur, d.delivered[d.cur], p); n > 0 {
				emit(Range{d.cur, d.delivered[d.cur], d.delivered[d.cur] + n})
				d.delivered[d.cur] += n
				p = p[n:]
				continue
			}
		}
		// 2. beginning of a stream that has not started (in registration order)
		found := false
		for _, sid := range d.order {
			if d.delivered[sid] == 0 && d.size[sid] > 0 {
				if n := d.match(sid, 0, p); n > 0 {
					emit(Range{sid, 0, n})
					d.delivered[sid] = n
					d.cur = sid
					p = p[n:]
					found = true
					break
				}
			}
		}
		if found {
			continue
		}
		// 3. continuation of some other started stream (interleaving), longest match wins
		best, bestSid := 0, -1
		for _, sid := range d.order {
			if sid != d.cur && d.delivered[sid] > 0 && d.delivered[sid] < d.size[sid] {
				if n := d.match(sid, d.delivered[sid], p); n > best {
					best, bestSid = n, sid
				}
			}
		}
		if bestSid >= 0 {
			emit(Range{bestSid, d.delivered[bestSid], d.delivered[bestSid] + best})
			d.delivered[bestSid] += best
			d.cur = bestSid
			p = p[best:]
			continue
		}
		// 4. any position of any stream (duplicate / reordered / skipped bytes): search offsets
		best, bestSid, bestOff := 0, -1, 0
		for _, sid := range d.order {
			lim := d.size[sid]
			for off := 0; off < lim; off++ {
				if p[0] != payloadByte(sid, off) {
					continue
				}
				if n := d.match(sid, off, p); n > best {
					best, bestSid, bestOff = n, sid, off
				}
				if best >= 8 || lim > 1<<16 && off > 1<<16 {
					break
				}
			}
		}
		if bestSid >= 0 {
			emit(Range{bestSid, bestOff, bestOff + best})
			p = p[best:]
			continue
		}
		// 5. garbage: one byte at a time (merged)
		if len(out) > 0 && out[len(out)-1].Sid == -1 {
			out[len(out)-1].Hi++
		} else {
			out = append(out, Range{-1, 0, 1})
		}
		p = p[1:]
	}
	return out
}
