// Package hlib holds helpers shared by the conformance drivers: trace emission (ndjson), script
// reading, socket helpers, self-describing payloads.
package hlib

import (
	"bufio"
	"encoding/json"
	"fmt"
	"net"
	"os"
	"sync"
	"syscall"
)

// Ev is one trace event.
type Ev map[string]interface{}

// Trace is a concurrency-safe ndjson writer.
type Trace struct {
	mu sync.Mutex
	w  *bufio.Writer
	f  *os.File
	N  int
}

func NewTrace(path string) (*Trace, error) {
	f, err := os.Create(path)
	if err != nil {
		return nil, err
	}
	return &Trace{f: f, w: bufio.NewWriterSize(f, 1<<20)}, nil
}

func (t *Trace) Emit(e Ev) {
	b, err := json.Marshal(e)
	if err != nil {
		panic(err)
	}
	t.mu.Lock()
	t.w.Write(b)
	t.w.WriteByte('\n')
	t.N++
	t.mu.Unlock()
}

// Sync flushes buffered events to the file (used before an expected crash of the process).
func (t *Trace) Sync() {
	t.mu.Lock()
	_ = t.w.Flush()
	t.mu.Unlock()
}

func (t *Trace) Close() error {
	t.mu.Lock()
	defer t.mu.Unlock()
	if err := t.w.Flush(); err != nil {
		return err
	}
	return t.f.Close()
}

// ReadLines calls fn for each JSON line of path.
func ReadLines(path string, fn func(line []byte) error) error {
	f, err := os.Open(path)
	if err != nil {
		return err
	}
	defer f.Close()
	sc := bufio.NewScanner(f)
	sc.Buffer(make([]byte, 1<<20), 1<<28)
	for sc.Scan() {
		b := sc.Bytes()
		if len(b) == 0 {
			continue
		}
		if err := fn(b); err != nil {
			return err
		}
	}
	return sc.Err()
}

// UnixPair returns two connected unix stream connections.
func UnixPair() (net.Conn, net.Conn, error) {
	fds, err := syscall.Socketpair(syscall.AF_UNIX, syscall.SOCK_STREAM|syscall.SOCK_CLOEXEC, 0)
	if err != nil {
		return nil, nil, err
	}
	mk := func(fd int) (net.Conn, error) {
		f := os.NewFile(uintptr(fd), fmt.Sprintf("sp%d", fd))
		defer f.Close()
		return net.FileConn(f)
	}
	a, err := mk(fds[0])
	if err != nil {
		syscall.Close(fds[1])
		return nil, nil, err
	}
	b, err := mk(fds[1])
	if err != nil {
		a.Close()
		return nil, nil, err
	}
	return a, b, nil
}

// Fatal prints an infrastructure error and exits with status 2 (never a verdict).
func Fatal(format string, a ...interface{}) {
	fmt.Fprintf(os.Stderr, "driver: "+format+"\n", a...)
	os.Exit(2)
}
