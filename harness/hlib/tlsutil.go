package hlib

import (
	"crypto/ecdsa"
	"crypto/elliptic"
	"crypto/rand"
	"crypto/x509"
	"crypto/x509/pkix"
	"encoding/pem"
	"math/big"
	"net"
	"time"
)

// SelfSigned returns a throw-away certificate / key pair for 127.0.0.1.
func SelfSigned() (certPEM, keyPEM []byte) {
	key, _ := ecdsa.GenerateKey(elliptic.P256(), rand.Reader)
	tmpl := &x509.Certificate{SerialNumber: big.NewInt(1), Subject: pkix.Name{CommonName: "verif"}, NotBefore: time.Now().Add(-time.Hour),
		NotAfter: time.Now().Add(24 * time.Hour), KeyUsage: x509.KeyUsageDigitalSignature, ExtKeyUsage: []x509.ExtKeyUsage{x509.ExtKeyUsageServerAuth},
		IPAddresses: []net.IP{net.IPv4(127, 0, 0, 1)}, DNSNames: []string{"localhost"}}
	der, _ := x509.CreateCertificate(rand.Reader, tmpl, tmpl, &key.PublicKey, key)
	kb, _ := x509.MarshalECPrivateKey(key)
	return pem.EncodeToMemory(&pem.Block{Type: "CERTIFICATE", Bytes: der}), pem.EncodeToMemory(&pem.Block{Type: "EC PRIVATE KEY", Bytes: kb})
}
