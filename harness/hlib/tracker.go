package hlib

import "sync"

// Tracker is an ownership-tracking allocator (the mempool.Allocator contract): every buffer gets a
// handle, every allocator call on a handle is logged, freed buffers are filled with 0xDD and kept so that
// a later write into them is detected (PoisonIntact) and a later read shows up as 0xDD bytes.
type Tracker struct {
	mu    sync.Mutex
	ids   map[*[]byte]int
	freed map[*[]byte][]byte
	next  int
	Log   []Ev
}

func NewTracker() *Tracker {
	return &Tracker{ids: map[*[]byte]int{}, freed: map[*[]byte][]byte{}}
}

func (t *Tracker) emit(opn string, id int) {
	t.Log = append(t.Log, Ev{"ev": "a", "op": opn, "id": id, "id2": id})
}

func (t *Tracker) Malloc(size int) *[]byte {
	b := make([]byte, size)
	p := &b
	t.mu.Lock()
	t.next++
	t.ids[p] = t.next
	t.emit("malloc", t.next)
	t.mu.Unlock()
	return p
}

func (t *Tracker) use(opn string, p *[]byte) bool {
	id, ok := t.ids[p]
	if ok {
		t.emit(opn, id)
	}
	return ok
}

func (t *Tracker) Realloc(p *[]byte, size int) *[]byte {
	t.mu.Lock()
	defer t.mu.Unlock()
	t.use("realloc", p)
	if size <= cap(*p) {
		*p = (*p)[:size]
	} else {
		nb := make([]byte, size)
		copy(nb, *p)
		*p = nb
	}
	return p
}

func (t *Tracker) Append(p *[]byte, more ...byte) *[]byte {
	t.mu.Lock()
	defer t.mu.Unlock()
	t.use("append", p)
	*p = append(*p, more...)
	return p
}

func (t *Tracker) AppendString(p *[]byte, more string) *[]byte {
	t.mu.Lock()
	defer t.mu.Unlock()
	t.use("appendstr", p)
	*p = append(*p, more...)
	return p
}

func (t *Tracker) Free(p *[]byte) {
	if p == nil {
		return
	}
	t.mu.Lock()
	defer t.mu.Unlock()
	if !t.use("free", p) {
		return
	}
	full := (*p)[:cap(*p)]
	for i := range full {
		full[i] = 0xDD
	}
	t.freed[p] = full
}

// PoisonIntact reports that no freed buffer was written to.
func (t *Tracker) PoisonIntact() bool {
	t.mu.Lock()
	defer t.mu.Unlock()
	for _, full := range t.freed {
		for _, b := range full {
			if b != 0xDD {
				return false
			}
		}
	}
	return true
}

// Events returns the log followed by the final poison check.
func (t *Tracker) Events() []Ev {
	ok := t.PoisonIntact()
	t.mu.Lock()
	defer t.mu.Unlock()
	return append(append([]Ev{}, t.Log...), Ev{"ev": "aend", "poison": ok})
}
