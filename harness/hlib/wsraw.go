package hlib

import (
	"bufio"
	"crypto/sha1"
	"encoding/base64"
	"encoding/binary"
	"fmt"
	"io"
	"net"
	"net/http"
	"time"
)

// WsFrame is one decoded WebSocket frame.
type WsFrame struct {
	Fin, Rsv1, Masked bool
	Op                int
	Payload           []byte
}

// WsEncode builds a frame (minimal length encoding); masked frames use a fixed key.
func WsEncode(fin bool, op int, payload []byte, masked bool) []byte {
	b0 := byte(op & 0x0f)
	if fin {
		b0 |= 0x80
	}
	b := []byte{b0}
	var mb byte
	if masked {
		mb = 0x80
	}
	n := len(payload)
	switch {
	case n <= 125:
		b = append(b, mb|byte(n))
	case n <= 65535:
		b = append(b, mb|126, byte(n>>8), byte(n))
	default:
		b = append(b, mb|127)
		var l [8]byte
		binary.BigEndian.PutUint64(l[:], uint64(n))
		b = append(b, l[:]...)
	}
	if masked {
		key := []byte{0x11, 0x22, 0x33, 0x44}
		b = append(b, key...)
		for i, c := range payload {
			b = append(b, c^key[i%4])
		}
	} else {
		b = append(b, payload...)
	}
	return b
}

// WsReadFrame reads one frame from r.
func WsReadFrame(r *bufio.Reader) (WsFrame, error) {
	var f WsFrame
	h := make([]byte, 2)
	if _, err := io.ReadFull(r, h); err != nil {
		return f, err
	}
	f.Fin, f.Rsv1, f.Op, f.Masked = h[0]&0x80 != 0, h[0]&0x40 != 0, int(h[0]&0x0f), h[1]&0x80 != 0
	n := int(h[1] & 0x7f)
	switch n {
	case 126:
		b := make([]byte, 2)
		if _, err := io.ReadFull(r, b); err != nil {
			return f, err
		}
		n = int(binary.BigEndian.Uint16(b))
	case 127:
		b := make([]byte, 8)
		if _, err := io.ReadFull(r, b); err != nil {
			return f, err
		}
		n = int(binary.BigEndian.Uint64(b))
	}
	var key []byte
	if f.Masked {
		key = make([]byte, 4)
		if _, err := io.ReadFull(r, key); err != nil {
			return f, err
		}
	}
	if n < 0 || n > 64<<20 {
		return f, fmt.Errorf("absurd frame length %d", n)
	}
	f.Payload = make([]byte, n)
	if _, err := io.ReadFull(r, f.Payload); err != nil {
		return f, err
	}
	for i := range f.Payload {
		if f.Masked {
			f.Payload[i] ^= key[i%4]
		}
	}
	return f, nil
}

// WsHandshake performs the client side of the opening handshake on c.  With split the request leaves in
// two writes, and extra (frames a client sends without waiting for the 101) travels with the second one.
func WsHandshake(c net.Conn, br *bufio.Reader, path string, extra []byte, split bool) error {
	key := base64.StdEncoding.EncodeToString([]byte("0123456789abcdef"))
	req := []byte(fmt.Sprintf("GET %s HTTP/1.1\r\nHost: verif\r\nUpgrade: websocket\r\nConnection: Upgrade\r\nSec-WebSocket-Key: %s\r\nSec-WebSocket-Version: 13\r\n\r\n", path, key))
	if split {
		if _, err := c.Write(req[:len(req)/2]); err != nil {
			return err
		}
		time.Sleep(3 * time.Millisecond)
		req = req[len(req)/2:]
	}
	if _, err := c.Write(append(req, extra...)); err != nil {
		return err
	}
	resp, err := http.ReadResponse(br, nil)
	if err != nil {
		return err
	}
	if resp.StatusCode != 101 {
		return fmt.Errorf("handshake status %d", resp.StatusCode)
	}
	h := sha1.Sum([]byte(key + "258EAFA5-E914-47DA-95CA-C5AB0DC85B11"))
	if resp.Header.Get("Sec-WebSocket-Accept") != base64.StdEncoding.EncodeToString(h[:]) {
		return fmt.Errorf("bad accept key")
	}
	return nil
}

// WsAssembler turns a frame stream into whole messages and reports frame sequences that are not a
// sequence of whole messages.  Control frames may appear anywhere (RFC 6455 5.4).
type WsAssembler struct {
	cur   []byte
	curOp int
}

func NewWsAssembler() *WsAssembler { return &WsAssembler{curOp: -1} }

// Push returns (op, data, true, "") when f completes a message or is a control frame, bad != "" on a
// malformed sequence.
func (a *WsAssembler) Push(f WsFrame) (op int, data []byte, complete bool, bad string) {
	switch {
	case f.Op >= 8:
		if !f.Fin {
			return 0, nil, false, "fragmented control frame"
		}
		return f.Op, f.Payload, true, ""
	case f.Op == 0:
		if a.curOp < 0 {
			return 0, nil, false, "continuation frame without a started message"
		}
		a.cur = append(a.cur, f.Payload...)
		if f.Fin {
			op, data = a.curOp, a.cur
			a.cur, a.curOp = nil, -1
			return op, data, true, ""
		}
		return 0, nil, false, ""
	case f.Op == 1 || f.Op == 2:
		if a.curOp >= 0 {
			return 0, nil, false, fmt.Sprintf("a new message starts while another one is incomplete (%d bytes so far)", len(a.cur))
		}
		if f.Fin {
			return f.Op, f.Payload, true, ""
		}
		a.cur, a.curOp = append([]byte{}, f.Payload...), f.Op
		return 0, nil, false, ""
	}
	return 0, nil, false, fmt.Sprintf("reserved opcode %d", f.Op)
}

// Incomplete reports whether a message was started and not finished.
func (a *WsAssembler) Incomplete() bool { return a.curOp >= 0 }

// WsPayload builds the self-describing payload "w<writer>:<seq>:<size>:" + padding.
func WsPayload(w, seq, size int) []byte {
	pre := fmt.Sprintf("w%d:%d:%d:", w, seq, size)
	if size < len(pre) {
		size = len(pre)
	}
	b := make([]byte, size)
	copy(b, pre)
	for i := len(pre); i < size; i++ {
		b[i] = byte('a' + (w+i)%26)
	}
	return b
}

// WsParsePayload is the inverse of WsPayload; ok reports that length and padding are intact.
func WsParsePayload(b []byte) (w, seq int, ok bool) {
	n := len(b)
	if n > 40 {
		n = 40
	}
	var size int
	if _, err := fmt.Sscanf(string(b[:n]), "w%d:%d:%d:", &w, &seq, &size); err != nil {
		return -1, -1, false
	}
	return w, seq, string(WsPayload(w, seq, size)) == string(b)
}
