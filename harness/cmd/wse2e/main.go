// Command wse2e is the end-to-end leg (direction V) of C14 (and of the engine-level parts of C05, C11,
// C12, C13): a real server is started for each requested configuration -- upgrade path (poller-driven,
// blocking read by the HTTP parser, blocking with the connection's own read loop, transferred to the
// poller from an nbhttp blocking engine or from a net/http server) x epoll mode x plain/TLS x direct /
// queued writes -- and raw WebSocket clients (codec in hlib/wsraw.go, no nbio code) run scripted
// connections against it.  The server side logs every callback; the client decodes the frame stream it
// receives.  Events are validated by TLC against WsOrderMonTrace.
package main

import (
	"bufio"
	stdtls "crypto/tls"
	"encoding/json"
	"flag"
	"fmt"
	"net"
	"net/http"
	"os"
	"strconv"
	"strings"
	"sync"
	"syscall"
	"time"

	ltls "github.com/lesismal/llib/std/crypto/tls"
	"github.com/lesismal/nbio"
	"github.com/lesismal/nbio/logging"
	"github.com/lesismal/nbio/mempool"
	"github.com/lesismal/nbio/nbhttp"
	"github.com/lesismal/nbio/nbhttp/websocket"

	"verifharness/hlib"
)

type connPlan struct {
	NMsg      int    `json:"nmsg"`      // client -> server messages before the end game
	GoAt      int    `json:"goat"`      // the message that starts the server's writers
	Chunk     string `json:"chunk"`     // one | split | frag | stream (thousands of small messages in large writes)
	Writers   int    `json:"writers"`   // concurrent writer goroutines on the server
	PerWriter int    `json:"perwriter"` // messages per writer
	Big       bool   `json:"big"`       // some messages exceed the frame payload limit (fragmented)
	End       string `json:"end"`       // closeframe | abrupt | mid | badtail | srvclose | early | stall
	SlowOpen  bool   `json:"slowopen"`
	SlowMsg   bool   `json:"slowmsg"`
	SlowRead  bool   `json:"slowread"`
	EarlyData bool   `json:"earlydata"` // the handshake arrives in two reads, the second carries the first frame
}

type scen struct {
	ID    string     `json:"id"`
	Path  string     `json:"path"` // poller | blkparser | ownloop | transfer | stdtransfer
	Mode  string     `json:"mode"` // LT | ET | OS
	TLS   bool       `json:"tls"`
	Async bool       `json:"async"`
	Track bool       `json:"track"` // ownership-tracking allocator (C11)
	Conns []connPlan `json:"conns"`
}

// server-side state of one scripted connection
type srvConn struct {
	mu       sync.Mutex
	plan     connPlan
	evs      []hlib.Ev
	handled  int
	wdone    bool
	started  bool
	sentDone bool
	wsent    []hlib.Ev
	necho    int
	nitems   int // client items (messages and pings) before the end game
	goseq    int // the item that starts the writers
	closed   chan struct{}
	nclose   int
	ws       *websocket.Conn
}

func (s *srvConn) rec(e hlib.Ev) {
	s.mu.Lock()
	s.evs = append(s.evs, e)
	s.mu.Unlock()
}

var (
	tr      *hlib.Trace
	emitMu  sync.Mutex
	regMu   sync.Mutex
	reg     = map[string]*srvConn{}
	curScen scen
)

func emitBlock(id string, attrs hlib.Ev, evs []hlib.Ev) {
	emitMu.Lock()
	defer emitMu.Unlock()
	r := hlib.Ev{"ev": "reset", "id": id}
	for k, v := range attrs {
		r[k] = v
	}
	tr.Emit(r)
	for _, e := range evs {
		tr.Emit(e)
	}
}

func sizeOf(w, i int, big bool) int {
	switch (w + i) % 6 {
	case 0:
		return 20
	case 1:
		return 300
	case 2:
		if big {
			return 70000
		}
		return 1000
	case 3:
		return 126
	case 4:
		if big {
			return 33000
		}
		return 64
	}
	return 15
}

func min(a, b int) int {
	if a < b {
		return a
	}
	return b
}

const echoWriter = 99

func (s *srvConn) maybeDone(c *websocket.Conn) {
	s.mu.Lock()
	fire := s.wdone && s.handled >= s.nitems && !s.sentDone
	if fire {
		s.sentDone = true
	}
	s.mu.Unlock()
	if fire {
		_ = c.WriteMessage(websocket.TextMessage, []byte("done"))
	}
}

func (s *srvConn) runWriters(c *websocket.Conn) {
	var wg sync.WaitGroup
	res := make([]hlib.Ev, s.plan.Writers)
	for w := 0; w < s.plan.Writers; w++ {
		w := w
		wg.Add(1)
		go func() {
			defer wg.Done()
			n := 0
			failed := false
			for i := 0; i < s.plan.PerWriter; i++ {
				size := sizeOf(w, i, s.plan.Big)
				p := hlib.WsPayload(w, i, size)
				var err error
				if w == 0 && size <= 1000 {
					err = c.WriteFrame(websocket.BinaryMessage, true, true, p)
				} else if w%2 == 0 {
					err = c.WriteMessage(websocket.BinaryMessage, p)
				} else {
					err = c.WriteMessage(websocket.TextMessage, p)
				}
				if err != nil {
					failed = true
					break
				}
				n++
			}
			res[w] = hlib.Ev{"ev": "wsent", "writer": w, "n": n, "failed": failed}
		}()
	}
	wg.Wait()
	s.mu.Lock()
	s.wsent = append(s.wsent, res...)
	s.wdone = true
	s.mu.Unlock()
	s.maybeDone(c)
}

func newUpgrader(e *nbhttp.Engine, sc scen) *websocket.Upgrader {
	u := websocket.NewUpgrader()
	u.Engine = e
	u.CheckOrigin = func(r *http.Request) bool { return true }
	u.BlockingModAsyncWrite = sc.Async
	u.BlockingModHandleRead = true
	u.BlockingModTrasferConnToPoller = sc.Path == "transfer"
	u.KeepaliveTime = 0
	u.OnOpen(func(c *websocket.Conn) {
		s := find(c)
		if s == nil {
			return
		}
		s.rec(hlib.Ev{"ev": "openb"})
		if s.plan.SlowOpen {
			time.Sleep(15 * time.Millisecond)
		}
		s.rec(hlib.Ev{"ev": "opene"})
	})
	onItem := func(c *websocket.Conn, data []byte, ping bool) {
		s := find(c)
		if s == nil {
			return
		}
		parts := strings.SplitN(string(data[:min(len(data), 32)]), ":", 3)
		seq := -1
		if len(parts) >= 2 && parts[0] == "m" {
			seq, _ = strconv.Atoi(parts[1])
		}
		s.rec(hlib.Ev{"ev": "msgb", "seq": seq, "len": len(data), "ping": ping})
		if s.plan.SlowMsg || seq >= s.nitems {
			// (the end-game messages are always slow: a protocol violation arrives while they are handled)
			time.Sleep(3 * time.Millisecond)
		}
		// the reply is a write racing with the writer goroutines
		var err error
		if ping {
			err = c.WriteMessage(websocket.PongMessage, data)
		} else {
			s.mu.Lock()
			k := s.necho
			s.necho++
			s.mu.Unlock()
			err = c.WriteMessage(websocket.TextMessage, hlib.WsPayload(echoWriter, k, 24))
		}
		s.mu.Lock()
		if err == nil && seq < s.nitems && !ping {
			// (echoes of the end-game messages are not counted: the connection is going away)
			s.wsent = append(s.wsent, hlib.Ev{"ev": "wecho", "seq": seq})
		}
		s.handled++
		start := seq == s.goseq && !s.started
		if start {
			s.started = true
		}
		s.evs = append(s.evs, hlib.Ev{"ev": "msge", "seq": seq})
		s.mu.Unlock()
		if start {
			go s.runWriters(c)
		} else {
			s.maybeDone(c)
		}
	}
	u.OnMessage(func(c *websocket.Conn, mt websocket.MessageType, data []byte) { onItem(c, data, false) })
	u.SetPingHandler(func(c *websocket.Conn, data string) { onItem(c, []byte(data), true) })
	u.OnClose(func(c *websocket.Conn, err error) {
		s := find(c)
		if s == nil {
			return
		}
		es := ""
		if err != nil {
			es = err.Error()
		}
		s.mu.Lock()
		s.evs = append(s.evs, hlib.Ev{"ev": "closecb", "err": es})
		s.nclose++
		first := s.nclose == 1
		s.mu.Unlock()
		if first {
			close(s.closed)
		}
	})
	return u
}

func runScen(sc scen) int {
	curScen = sc
	cfg := nbhttp.Config{Network: "tcp", NPoller: 2, MaxBlockingOnline: 10000, KeepaliveTime: 30 * time.Second}
	switch sc.Path {
	case "blkparser", "transfer":
		cfg.IOMod = nbhttp.IOModBlocking
	default:
		cfg.IOMod = nbhttp.IOModNonBlocking
	}
	switch sc.Mode {
	case "ET":
		cfg.EpollMod = nbio.EPOLLET
	case "OS":
		cfg.EpollMod = nbio.EPOLLET
		cfg.EPOLLONESHOT = nbio.EPOLLONESHOT
	}
	std := sc.Path == "ownloop" || sc.Path == "stdtransfer"
	var certPEM, keyPEM []byte
	if sc.TLS {
		certPEM, keyPEM = hlib.SelfSigned()
	}
	if !std {
		if sc.TLS {
			cert, err := ltls.X509KeyPair(certPEM, keyPEM)
			if err != nil {
				hlib.Fatal("keypair: %v", err)
			}
			cfg.TLSConfig = &ltls.Config{Certificates: []ltls.Certificate{cert}}
			cfg.AddrsTLS = []string{"127.0.0.1:0"}
		} else {
			cfg.Addrs = []string{"127.0.0.1:0"}
		}
	}
	mux := &http.ServeMux{}
	cfg.Handler = mux
	var trk *hlib.Tracker
	if sc.Track {
		// every pooled buffer of this scenario goes through the ownership tracker
		trk = hlib.NewTracker()
		cfg.BodyAllocator = trk
		mempool.DefaultMemPool = trk
	}
	e := nbhttp.NewEngine(cfg)
	u := newUpgrader(e, sc)
	e.OnClose(func(c net.Conn, err error) {
		if a := c.RemoteAddr(); a != nil {
			if v, ok := byAddr.Load(a.String()); ok {
				v.(*srvConn).rec(hlib.Ev{"ev": "engclose"})
			}
		}
	})
	mux.HandleFunc("/ws", func(w http.ResponseWriter, r *http.Request) {
		regMu.Lock()
		s := reg[r.URL.Query().Get("c")]
		regMu.Unlock()
		if s == nil {
			http.Error(w, "unknown", 400)
			return
		}
		var c *websocket.Conn
		var err error
		if sc.Path == "stdtransfer" {
			c, err = u.UpgradeAndTransferConnToPoller(w, r, nil)
		} else {
			c, err = u.Upgrade(w, r, nil)
		}
		if err != nil {
			s.rec(hlib.Ev{"ev": "upgradefail", "err": err.Error()})
			return
		}
		s.mu.Lock()
		s.ws = c
		s.mu.Unlock()
	})
	if err := e.Start(); err != nil {
		hlib.Fatal("start %s: %v", sc.ID, err)
	}
	addr := ""
	var stdsrv *http.Server
	if std {
		ln, err := net.Listen("tcp", "127.0.0.1:0")
		if err != nil {
			hlib.Fatal("listen: %v", err)
		}
		addr = ln.Addr().String()
		if sc.TLS {
			cert, err := stdtls.X509KeyPair(certPEM, keyPEM)
			if err != nil {
				hlib.Fatal("keypair: %v", err)
			}
			ln = stdtls.NewListener(ln, &stdtls.Config{Certificates: []stdtls.Certificate{cert}})
		}
		stdsrv = &http.Server{Handler: mux}
		go stdsrv.Serve(ln)
	} else if sc.TLS {
		addr = e.AddrsTLS[0]
	} else {
		addr = e.Addrs[0]
	}
	var wg sync.WaitGroup
	for ci, p := range sc.Conns {
		ci, p := ci, p
		wg.Add(1)
		go func() {
			defer wg.Done()
			runConn(sc, fmt.Sprintf("%s/c%d", sc.ID, ci), addr, p)
		}()
	}
	wg.Wait()
	if stdsrv != nil {
		stdsrv.Close()
	}
	done := make(chan struct{})
	go func() { e.Stop(); close(done) }()
	select {
	case <-done:
	case <-time.After(10 * time.Second):
	}
	if trk != nil {
		emitBlock(sc.ID+"/alloc", hlib.Ev{"path": sc.Path, "wsmode": sc.Mode, "tls": sc.TLS, "async": sc.Async, "alloc": true}, trk.Events())
	}
	return len(sc.Conns)
}

// byAddr maps the client's local address to its scripted connection: the callbacks (the open callback runs
// inside Upgrade, before the handler has the Conn) find their connection through RemoteAddr.
var byAddr sync.Map

func find(c *websocket.Conn) *srvConn {
	a := c.RemoteAddr()
	if a == nil {
		return nil
	}
	v, ok := byAddr.Load(a.String())
	if !ok {
		return nil
	}
	return v.(*srvConn)
}

type item struct {
	seq   int
	bytes []byte
}

// clientItems numbers what the client sends in the order in which the items are complete on the wire: a
// ping that travels between the fragments of a message precedes that message.
func clientItems(p connPlan, first, n int, seq0 int) (items []item, goseq int) {
	seq := seq0
	goseq = -1
	body := func(q int) []byte { return []byte(fmt.Sprintf("m:%d:%s", q, strings.Repeat("x", (q*37)%200))) }
	for i := first; i < first+n; i++ {
		if p.Chunk == "frag" {
			ping := []byte(fmt.Sprintf("m:%d:p", seq))
			bd := body(seq + 1)
			a, b2 := len(bd)/3, 2*len(bd)/3
			out := hlib.WsEncode(false, 1, bd[:a], true)
			out = append(out, hlib.WsEncode(true, 9, ping, true)...)
			out = append(out, hlib.WsEncode(false, 0, bd[a:b2], true)...)
			out = append(out, hlib.WsEncode(true, 0, bd[b2:], true)...)
			items = append(items, item{seq, nil}, item{seq + 1, out})
			if i == p.GoAt {
				goseq = seq + 1
			}
			seq += 2
		} else {
			items = append(items, item{seq, hlib.WsEncode(true, 1, body(seq), true)})
			if i == p.GoAt {
				goseq = seq
			}
			seq++
		}
	}
	return items, goseq
}

func runConn(sc scen, id, addr string, p connPlan) {
	s := &srvConn{plan: p, closed: make(chan struct{})}
	items, goseq := clientItems(p, 0, p.NMsg, 0)
	s.nitems, s.goseq = len(items), goseq
	regMu.Lock()
	reg[id] = s
	regMu.Unlock()
	var cev []hlib.Ev
	attrs := hlib.Ev{"path": sc.Path, "wsmode": sc.Mode, "tls": sc.TLS, "async": sc.Async, "chunk": p.Chunk, "end": p.End, "big": p.Big,
		"early": p.EarlyData}
	defer func() {
		s.mu.Lock()
		evs := append([]hlib.Ev{}, s.evs...)
		evs = append(evs, cev...)
		if p.End != "mid" && p.End != "early" && p.End != "stall" {
			necho := 0
			for _, e := range s.wsent {
				if e["ev"] == "wecho" {
					necho++
				} else if e["failed"] == false {
					evs = append(evs, e)
				}
			}
			evs = append(evs, hlib.Ev{"ev": "wsent", "writer": echoWriter, "n": necho, "echo": true})
		}
		s.mu.Unlock()
		evs = append(evs, hlib.Ev{"ev": "end"})
		emitBlock(id, attrs, evs)
	}()
	d := net.Dialer{}
	if p.SlowRead {
		// a small receive window (set before the connect): what the server writes backs up in ITS user space quickly
		d.Control = func(network, address string, rc syscall.RawConn) error {
			return rc.Control(func(fd uintptr) { syscall.SetsockoptInt(int(fd), syscall.SOL_SOCKET, syscall.SO_RCVBUF, 8192) })
		}
	}
	raw, err := d.Dial("tcp", addr)
	if err != nil {
		hlib.Fatal("dial %s: %v", addr, err)
	}
	byAddr.Store(raw.LocalAddr().String(), s)
	if p.End == "stall" {
		raw.(*net.TCPConn).SetReadBuffer(4096)
	}
	var c net.Conn = raw
	if sc.TLS {
		tc := stdtls.Client(raw, &stdtls.Config{InsecureSkipVerify: true})
		if err := tc.Handshake(); err != nil {
			hlib.Fatal("tls handshake: %v", err)
		}
		c = tc
	}
	defer c.Close()
	br := bufio.NewReaderSize(c, 8192)
	c.SetDeadline(time.Now().Add(20 * time.Second))
	var early []byte
	if p.EarlyData && len(items) > 0 && p.End != "early" {
		for len(items) > 0 && early == nil {
			early = items[0].bytes
			items = items[1:]
		}
	}
	if err := hlib.WsHandshake(c, br, "/ws?c="+id, early, p.EarlyData); err != nil {
		cev = append(cev, hlib.Ev{"ev": "infra", "what": "handshake: " + err.Error()})
		return
	}
	waitClosed := func() {
		select {
		case <-s.closed:
		case <-time.After(4 * time.Second):
		}
		// let a wrong second close notification or a late callback show up
		time.Sleep(30 * time.Millisecond)
	}
	if p.End == "early" {
		// the peer goes away while the open callback may still be running
		if p.NMsg > 0 {
			c.Write(items[len(items)-1].bytes)
		}
		c.Close()
		waitClosed()
		return
	}
	// reader: decodes the server's frame stream into whole messages
	type rmsg struct {
		op   int
		data []byte
		bad  string
		eof  bool
	}
	msgs := make(chan rmsg, 4096)
	go func() {
		defer close(msgs)
		if p.End == "stall" {
			return // this client never reads: the server's writes back up
		}
		if p.SlowRead {
			time.Sleep(60 * time.Millisecond)
		}
		asm := hlib.NewWsAssembler()
		for {
			f, err := hlib.WsReadFrame(br)
			if err != nil {
				msgs <- rmsg{eof: true, bad: err.Error()}
				return
			}
			if f.Masked {
				msgs <- rmsg{bad: "masked frame from the server"}
				return
			}
			op, data, complete, bad := asm.Push(f)
			if bad != "" {
				msgs <- rmsg{bad: bad}
				return
			}
			if complete {
				msgs <- rmsg{op: op, data: data}
			}
		}
	}()
	// send the client's items
	if p.Chunk == "one" || p.Chunk == "stream" {
		var all []byte
		for _, it := range items {
			all = append(all, it.bytes...)
		}
		c.Write(all)
	} else {
		for _, it := range items {
			b := it.bytes
			if p.Chunk == "split" {
				for len(b) > 0 {
					n := min(len(b), 7)
					c.Write(b[:n])
					b = b[n:]
				}
			} else if len(b) > 0 {
				c.Write(b)
			}
		}
	}
	if p.End == "stall" {
		// the peer goes away (RST: unread input) while the server's send queue / write buffer is backed up
		time.Sleep(150 * time.Millisecond)
		c.Close()
		waitClosed()
		return
	}
	// receive until "done" (or, for a mid-stream close, until enough arrived)
	got := 0
	finished := false
	sawEOF := false
	for !finished {
		m, ok := <-msgs
		if !ok {
			break
		}
		switch {
		case m.eof:
			cev = append(cev, hlib.Ev{"ev": "earlyeof", "what": m.bad})
			finished, sawEOF = true, true
		case m.bad != "":
			cev = append(cev, hlib.Ev{"ev": "wbad", "what": m.bad})
			finished = true
		case m.op >= 8:
		case string(m.data) == "done":
			finished = true
		default:
			w, seq, ok := hlib.WsParsePayload(m.data)
			cev = append(cev, hlib.Ev{"ev": "wmsg", "writer": w, "seq": seq, "ok": ok, "len": len(m.data)})
			got++
			if p.End == "mid" && got >= 12 {
				finished = true
			}
		}
	}
	// drain reports whether the server ended the connection (EOF or a close frame) within the bound
	drain := func(d time.Duration) bool {
		deadline := time.After(d)
		for {
			select {
			case m, ok := <-msgs:
				if !ok || m.eof || m.op == 8 {
					return true
				}
			case <-deadline:
				return false
			}
		}
	}
	switch p.End {
	case "closeframe":
		if !sawEOF {
			c.Write(hlib.WsEncode(true, 8, []byte{0x03, 0xe8}, true))
			cev = append(cev, hlib.Ev{"ev": "closeanswered", "ok": drain(3 * time.Second)})
		}
	case "badtail":
		if !sawEOF {
			tail, _ := clientItems(p, p.NMsg, 3, s.nitems)
			var all []byte
			for _, it := range tail {
				all = append(all, it.bytes...)
			}
			c.Write(all)
			time.Sleep(2 * time.Millisecond)                     // the first of them is being handled now
			c.Write(hlib.WsEncode(true, 3, []byte("bad"), true)) // reserved opcode
			cev = append(cev, hlib.Ev{"ev": "violationanswered", "ok": drain(3 * time.Second)})
		}
	case "srvclose":
		s.mu.Lock()
		ws := s.ws
		s.mu.Unlock()
		if ws != nil {
			go ws.Close()
			go ws.Close()
		}
	default: // abrupt, mid
	}
	c.Close()
	waitClosed()
}

func main() {
	out := flag.String("trace", "", "")
	scens := flag.String("scenarios", "", "")
	flag.Parse()
	logging.SetLevel(logging.LevelNone)
	var err error
	tr, err = hlib.NewTrace(*out)
	if err != nil {
		hlib.Fatal("%v", err)
	}
	var list []scen
	b, err := os.ReadFile(*scens)
	if err != nil {
		hlib.Fatal("%v", err)
	}
	if err := json.Unmarshal(b, &list); err != nil {
		hlib.Fatal("%v", err)
	}
	n := 0
	for _, s := range list {
		n += runScen(s)
	}
	tr.Close()
	fmt.Printf("{\"connections\": %d}\n", n)
	os.Exit(0)
}
