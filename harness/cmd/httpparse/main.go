// Command httpparse runs HTTP/1.x byte streams generated from HttpMsg.tla through the real nbhttp
// Parser and records what it delivers, for validation by TLC against HttpMon.tla:
//
//	C06  one-piece run vs every requested segmentation (recording Processor: public interface)
//	C07  per message: what nbhttp's real processors deliver vs net/http vs the spec's meaning
//	C08  malformed / arbitrary inputs under small ReadLimit / MaxHTTPBodySize: errors, callbacks
//	     after an error, retained bytes, body size, panics (captured from the logger), time per call
package main

import (
	"bufio"
	"bytes"
	"encoding/base64"
	"encoding/json"
	"flag"
	"fmt"
	"io"
	"net"
	"net/http"
	"net/textproto"
	"os"
	"sort"
	"strings"
	"sync/atomic"
	"time"

	"github.com/lesismal/nbio/logging"
	"github.com/lesismal/nbio/nbhttp"

	"verifharness/hlib"
)

type tcase struct {
	ID         string                   `json:"id"`
	Mode       string                   `json:"mode"`
	Side       string                   `json:"side"`
	Data       string                   `json:"data"`
	Cuts       [][]int                  `json:"cuts"`
	Spec       []map[string]interface{} `json:"spec"`
	ReadLimit  int                      `json:"readlimit"`
	MaxBody    int                      `json:"maxbody"`
	MustReject bool                     `json:"mustreject"`
	Chunk      int                      `json:"chunk"` // C08: feed size
	OkBefore   int                      `json:"okbefore"`
}

// ---- in-memory net.Conn ----
type memConn struct{ w bytes.Buffer }

func (c *memConn) Read(b []byte) (int, error)         { return 0, io.EOF }
func (c *memConn) Write(b []byte) (int, error)        { return c.w.Write(b) }
func (c *memConn) Close() error                       { return nil }
func (c *memConn) LocalAddr() net.Addr                { return &net.TCPAddr{IP: net.IPv4(127, 0, 0, 1), Port: 1} }
func (c *memConn) RemoteAddr() net.Addr               { return &net.TCPAddr{IP: net.IPv4(127, 0, 0, 1), Port: 2} }
func (c *memConn) SetDeadline(t time.Time) error      { return nil }
func (c *memConn) SetReadDeadline(t time.Time) error  { return nil }
func (c *memConn) SetWriteDeadline(t time.Time) error { return nil }

// ---- recording Processor ----
type rec struct {
	evs     []string
	body    int
	cbs     int
	afterEr *int32
	onCb    func(kind string)
}

func (r *rec) add(s string) {
	r.cbs++
	if r.onCb != nil {
		r.onCb(strings.SplitN(s, ":", 2)[0])
	}
	// consecutive body pieces are one event: segmentation may split the body differently
	if strings.HasPrefix(s, "B:") && len(r.evs) > 0 && strings.HasPrefix(r.evs[len(r.evs)-1], "B:") {
		r.evs[len(r.evs)-1] += s[2:]
		return
	}
	r.evs = append(r.evs, s)
}
func (r *rec) OnMethod(p *nbhttp.Parser, m string)       { r.add("M:" + m) }
func (r *rec) OnURL(p *nbhttp.Parser, u string) error    { r.add("U:" + u); return nil }
func (r *rec) OnProto(p *nbhttp.Parser, s string) error  { r.add("P:" + s); return nil }
func (r *rec) OnStatus(p *nbhttp.Parser, c int, s string) { r.add(fmt.Sprintf("S:%d:%s", c, s)) }
func (r *rec) OnHeader(p *nbhttp.Parser, k, v string)    { r.add("H:" + k + "=" + v) }
func (r *rec) OnContentLength(p *nbhttp.Parser, n int)   { r.add(fmt.Sprintf("L:%d", n)) }
func (r *rec) OnBody(p *nbhttp.Parser, d []byte) error {
	r.body += len(d)
	r.add("B:" + string(d))
	return nil
}
func (r *rec) OnTrailerHeader(p *nbhttp.Parser, k, v string) { r.add("T:" + k + "=" + v) }
func (r *rec) OnComplete(p *nbhttp.Parser)                   { r.body = 0; r.add("C") }
func (r *rec) Close(p *nbhttp.Parser, err error)             {}
func (r *rec) Clean(p *nbhttp.Parser)                        {}

var tr *hlib.Trace
var panicLogged int32

type capLogger struct{}

func (capLogger) Debug(f string, v ...interface{}) {}
func (capLogger) Info(f string, v ...interface{})  {}
func (capLogger) Warn(f string, v ...interface{})  {}
func (capLogger) Error(f string, v ...interface{}) {
	if strings.Contains(f, "Parse failed") || strings.Contains(f, "panic") {
		atomic.AddInt32(&panicLogged, 1)
	}
}

func errStr(err error) string {
	if err == nil {
		return ""
	}
	return "error" // the error CLASS (rejected or not) is what must not depend on segmentation
}

func pieces(data []byte, cuts []int) [][]byte {
	var out [][]byte
	prev := 0
	for _, c := range cuts {
		if c <= prev || c >= len(data) {
			continue
		}
		out = append(out, data[prev:c])
		prev = c
	}
	out = append(out, data[prev:])
	return out
}

// Engines are only configuration holders for the parsers here; NewEngine starts executor goroutines that live as
// long as the process, so one engine per distinct configuration is kept (millions of recordings in the thorough tier).
var engines = map[[2]int]*nbhttp.Engine{}

func newEngine(readLimit, maxBody int, h http.Handler) *nbhttp.Engine {
	if h != nil {
		return nbhttp.NewEngine(nbhttp.Config{ReadLimit: readLimit, MaxHTTPBodySize: maxBody, Handler: h})
	}
	k := [2]int{readLimit, maxBody}
	e := engines[k]
	if e == nil {
		e = nbhttp.NewEngine(nbhttp.Config{ReadLimit: readLimit, MaxHTTPBodySize: maxBody})
		engines[k] = e
	}
	return e
}

func runRec(side string, data []byte, cuts []int, readLimit, maxBody int) ([]string, string) {
	r := &rec{}
	e := newEngine(readLimit, maxBody, nil)
	p := nbhttp.NewParser(&memConn{}, e, r, side == "client", nil)
	var err error
	for _, pc := range pieces(data, cuts) {
		if err = p.Parse(pc); err != nil {
			break
		}
	}
	if r.evs == nil {
		r.evs = []string{}
	}
	return r.evs, errStr(err)
}

func strs(a []string) []interface{} {
	out := make([]interface{}, len(a))
	for i, s := range a {
		out[i] = s
	}
	return out
}

// ---- C06 ----
func runC06(c *tcase, data []byte) (nontrivial bool) {
	tr.Emit(hlib.Ev{"ev": "reset", "id": c.ID, "focus": "C06"})
	evs, er := runRec(c.Side, data, nil, 0, 0)
	tr.Emit(hlib.Ev{"ev": "whole", "evs": strs(evs), "err": er, "n": len(data)})
	for _, cuts := range c.Cuts {
		e2, er2 := runRec(c.Side, data, cuts, 0, 0)
		tr.Emit(hlib.Ev{"ev": "cut", "cuts": fmt.Sprint(cuts), "evs": strs(e2), "err": er2})
	}
	return len(c.Cuts) > 0 && len(evs) > 2
}

// ---- C07 ----
func normHeaders(h http.Header) []interface{} {
	var out []string
	for k, vs := range h {
		ck := textproto.CanonicalMIMEHeaderKey(k)
		switch ck {
		case "Host", "Transfer-Encoding", "Trailer", "Content-Length":
			continue
		}
		for i, v := range vs {
			out = append(out, fmt.Sprintf("%s#%d=%s", ck, i, strings.Trim(v, " \t")))
		}
	}
	sort.Strings(out)
	return strs(out)
}

type countReader struct {
	r io.Reader
	n int
}

func (c *countReader) Read(p []byte) (int, error) { n, err := c.r.Read(p); c.n += n; return n, err }

func refMessages(side string, data []byte) []map[string]interface{} {
	cr := &countReader{r: bytes.NewReader(data)}
	br := bufio.NewReader(cr)
	var out []map[string]interface{}
	for {
		if side == "server" {
			req, err := http.ReadRequest(br)
			if err != nil {
				break
			}
			body, berr := io.ReadAll(req.Body)
			if berr != nil {
				break
			}
			out = append(out, map[string]interface{}{"method": req.Method, "target": req.RequestURI, "proto": req.Proto,
				"host": req.Host, "headers": normHeaders(req.Header), "body": string(body), "trailers": normHeaders(req.Trailer),
				"close": req.Close, "offset": cr.n - br.Buffered(), "code": 0, "status": ""})
		} else {
			res, err := http.ReadResponse(br, nil)
			if err != nil {
				break
			}
			body, berr := io.ReadAll(res.Body)
			if berr != nil {
				break
			}
			st := strings.TrimPrefix(res.Status, fmt.Sprintf("%d ", res.StatusCode))
			out = append(out, map[string]interface{}{"method": "", "target": "", "proto": res.Proto, "host": "",
				"headers": normHeaders(res.Header), "body": string(body), "trailers": normHeaders(res.Trailer),
				"close": false, "offset": cr.n - br.Buffered(), "code": res.StatusCode, "status": st})
		}
	}
	return out
}

func nbioMessages(side string, data []byte) ([]map[string]interface{}, string) {
	var out []map[string]interface{}
	fed := 0
	var e *nbhttp.Engine
	var p *nbhttp.Parser
	if side == "server" {
		e = newEngine(0, 0, http.HandlerFunc(func(w http.ResponseWriter, req *http.Request) {
			body, _ := io.ReadAll(req.Body)
			out = append(out, map[string]interface{}{"method": req.Method, "target": req.RequestURI, "proto": req.Proto,
				"host": req.Host, "headers": normHeaders(req.Header), "body": string(body), "trailers": normHeaders(req.Trailer),
				"close": req.Close, "offset": fed, "code": 0, "status": ""})
		}))
		p = nbhttp.NewParser(&memConn{}, e, nbhttp.NewServerProcessor(), false, nil)
	} else {
		e = newEngine(0, 0, nil)
		proc := nbhttp.NewClientProcessor(nil, func(res *http.Response, err error) {
			if err != nil || res == nil {
				return
			}
			var body []byte
			if res.Body != nil {
				body, _ = io.ReadAll(res.Body)
			}
			st := strings.TrimPrefix(res.Status, fmt.Sprintf("%d ", res.StatusCode))
			out = append(out, map[string]interface{}{"method": "", "target": "", "proto": res.Proto, "host": "",
				"headers": normHeaders(res.Header), "body": string(body), "trailers": normHeaders(res.Trailer),
				"close": false, "offset": fed, "code": res.StatusCode, "status": st})
		})
		p = nbhttp.NewParser(&memConn{}, e, proc, true, nil)
	}
	// byte at a time, so that the offset at which message k completes is observable
	for i := range data {
		fed = i + 1
		if err := p.Parse(data[i : i+1]); err != nil {
			return out, "error"
		}
	}
	return out, ""
}

func runC07(c *tcase, data []byte) bool {
	tr.Emit(hlib.Ev{"ev": "reset", "id": c.ID, "focus": "C07"})
	ref := refMessages(c.Side, data)
	nb, er := nbioMessages(c.Side, data)
	tr.Emit(hlib.Ev{"ev": "count", "nbio": len(nb), "ref": len(ref), "spec": len(c.Spec), "err": er})
	for k := range c.Spec {
		ev := hlib.Ev{"ev": "msg", "k": k, "spec": c.Spec[k], "hasref": k < len(ref), "hasnbio": k < len(nb)}
		if k < len(ref) {
			ev["ref"] = ref[k]
		} else {
			ev["ref"] = c.Spec[k]
		}
		if k < len(nb) {
			ev["nbio"] = nb[k]
		} else {
			ev["nbio"] = c.Spec[k]
		}
		tr.Emit(ev)
	}
	return len(c.Spec) > 0
}

// ---- C08 ----
func runC08(c *tcase, data []byte) bool {
	tr.Emit(hlib.Ev{"ev": "reset", "id": c.ID, "focus": "C08", "readlimit": c.ReadLimit, "maxbody": c.MaxBody,
		"mustreject": c.MustReject, "okbefore": c.OkBefore})
	atomic.StoreInt32(&panicLogged, 0)
	errSeen := false
	r := &rec{}
	completed := 0
	r.onCb = func(kind string) {
		if errSeen {
			tr.Emit(hlib.Ev{"ev": "cbaftererr", "kind": kind})
		}
		if kind == "C" {
			completed++
		}
		if kind == "B" && c.MaxBody > 0 {
			tr.Emit(hlib.Ev{"ev": "body", "total": r.body})
		}
	}
	e := newEngine(c.ReadLimit, c.MaxBody, nil)
	var p *nbhttp.Parser
	handlerRuns := 0
	if c.Side == "server-full" {
		// the real request processor: MaxHTTPBodySize is enforced in its body reader
		e = newEngine(c.ReadLimit, c.MaxBody, http.HandlerFunc(func(w http.ResponseWriter, req *http.Request) {
			handlerRuns++
			if errSeen {
				tr.Emit(hlib.Ev{"ev": "cbaftererr", "kind": "handler"})
			}
			body, _ := io.ReadAll(req.Body)
			completed++
			tr.Emit(hlib.Ev{"ev": "body", "total": len(body)})
		}))
		p = nbhttp.NewParser(&memConn{}, e, nbhttp.NewServerProcessor(), false, nil)
	} else if c.Side == "client-full" {
		proc := nbhttp.NewClientProcessor(nil, func(res *http.Response, err error) {
			if err != nil || res == nil {
				return
			}
			if errSeen {
				tr.Emit(hlib.Ev{"ev": "cbaftererr", "kind": "handler"})
			}
			completed++
		})
		p = nbhttp.NewParser(&memConn{}, e, proc, true, nil)
	} else {
		p = nbhttp.NewParser(&memConn{}, e, r, c.Side == "client", nil)
	}
	chunk := c.Chunk
	if chunk <= 0 {
		chunk = len(data)
	}
	for off := 0; off < len(data); off += chunk {
		end := off + chunk
		if end > len(data) {
			end = len(data)
		}
		t0 := time.Now()
		err := p.Parse(data[off:end])
		el := time.Since(t0)
		retained := nbhttp.VerifParserRetained(p)
		tr.Emit(hlib.Ev{"ev": "feed", "n": end - off, "retained": retained, "ms": int(el / time.Millisecond), "err": err != nil})
		if err != nil {
			errSeen = true
			// the connection layer closes the connection after an error and never feeds the parser again
			break
		}
	}
	tr.Emit(hlib.Ev{"ev": "end", "completed": completed, "rejected": errSeen, "panics": int(atomic.LoadInt32(&panicLogged))})
	return true
}

func main() {
	in := flag.String("cases", "", "")
	out := flag.String("trace", "", "")
	flag.Parse()
	logging.SetLogger(capLogger{})
	var err error
	tr, err = hlib.NewTrace(*out)
	if err != nil {
		hlib.Fatal("%v", err)
	}
	n, nt := 0, 0
	err = hlib.ReadLines(*in, func(b []byte) error {
		var c tcase
		if err := json.Unmarshal(b, &c); err != nil {
			return err
		}
		data, err := base64.StdEncoding.DecodeString(c.Data)
		if err != nil {
			return err
		}
		n++
		ok := false
		switch c.Mode {
		case "C06":
			ok = runC06(&c, data)
		case "C07":
			ok = runC07(&c, data)
		case "C08":
			ok = runC08(&c, data)
		}
		if ok {
			nt++
		}
		return nil
	})
	if err != nil {
		hlib.Fatal("%v", err)
	}
	tr.Close()
	fmt.Printf("{\"cases\": %d, \"nontrivial\": %d}\n", n, nt)
	os.Exit(0)
}
