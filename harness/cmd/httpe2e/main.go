// Command httpe2e is the end-to-end leg (direction V) of C10: a real nbhttp server is started for each
// requested configuration (I/O mode x epoll mode x plain/TLS); raw pipelining clients execute request
// histories generated from HttpConn.tla on many concurrent connections; the responses are decoded with
// net/http.ReadResponse.  A client leg drives nbhttp.Client against a scripted raw server.  Events are
// validated by TLC against HttpConnMonTrace.
package main

import (
	"bufio"
	"bytes"
	"crypto/ecdsa"
	"crypto/elliptic"
	"crypto/rand"
	stdtls "crypto/tls"
	"crypto/x509"
	"crypto/x509/pkix"
	"encoding/json"
	"encoding/pem"
	"flag"
	"fmt"
	"io"
	"math/big"
	"net"
	"net/http"
	"os"
	"strconv"
	"strings"
	"sync"
	"sync/atomic"
	"time"

	ltls "github.com/lesismal/llib/std/crypto/tls"
	"github.com/lesismal/nbio"
	"github.com/lesismal/nbio/logging"
	"github.com/lesismal/nbio/nbhttp"

	"verifharness/hlib"
)

type req struct {
	Ver      string `json:"ver"`
	Conn     string `json:"conn"`
	Post     bool   `json:"post"`
	ReqSize  int    `json:"reqsize"`
	RespSize int    `json:"respsize"`
	Flush    bool   `json:"flush"`
}

type history struct {
	Reqs       []req `json:"reqs"`
	CloseAfter int   `json:"closeafter"`
}

type scen struct {
	ID        string    `json:"id"`
	IOMod     string    `json:"iomod"`
	Mode      string    `json:"mode"`
	TLS       bool      `json:"tls"`
	Histories []history `json:"histories"`
	SlowRead  bool      `json:"slowread"`
}

var tr *hlib.Trace
var emitMu sync.Mutex

// coalesce lets several writes (TLS records) leave in ONE write on the underlying connection.
type coalesce struct {
	net.Conn
	mu   sync.Mutex
	hold bool
	buf  []byte
}

func (c *coalesce) Write(p []byte) (int, error) {
	c.mu.Lock()
	defer c.mu.Unlock()
	if c.hold {
		c.buf = append(c.buf, p...)
		return len(p), nil
	}
	return c.Conn.Write(p)
}

func (c *coalesce) release() error {
	c.mu.Lock()
	defer c.mu.Unlock()
	c.hold = false
	if len(c.buf) == 0 {
		return nil
	}
	_, err := c.Conn.Write(c.buf)
	c.buf = nil
	return err
}

func emitBlock(id string, evs []hlib.Ev) {
	emitMu.Lock()
	defer emitMu.Unlock()
	tr.Emit(hlib.Ev{"ev": "reset", "id": id})
	for _, e := range evs {
		tr.Emit(e)
	}
}

func selfSigned() (certPEM, keyPEM []byte) {
	key, _ := ecdsa.GenerateKey(elliptic.P256(), rand.Reader)
	tmpl := &x509.Certificate{SerialNumber: big.NewInt(1), Subject: pkix.Name{CommonName: "verif"}, NotBefore: time.Now().Add(-time.Hour),
		NotAfter: time.Now().Add(24 * time.Hour), KeyUsage: x509.KeyUsageDigitalSignature, ExtKeyUsage: []x509.ExtKeyUsage{x509.ExtKeyUsageServerAuth},
		IPAddresses: []net.IP{net.IPv4(127, 0, 0, 1)}, DNSNames: []string{"localhost"}}
	der, _ := x509.CreateCertificate(rand.Reader, tmpl, tmpl, &key.PublicKey, key)
	kb, _ := x509.MarshalECPrivateKey(key)
	return pem.EncodeToMemory(&pem.Block{Type: "CERTIFICATE", Bytes: der}), pem.EncodeToMemory(&pem.Block{Type: "EC PRIVATE KEY", Bytes: kb})
}

// body of n bytes that starts with <tag> and is otherwise a function of (tag, offset)
func tagBody(tag string, n int) []byte {
	b := make([]byte, n)
	pre := "<" + tag + ">"
	for i := range b {
		if i < len(pre) {
			b[i] = pre[i]
		} else {
			b[i] = "abcdefghijklmnopqrstuvwxyz"[(i+len(tag))%26]
		}
	}
	return b
}

func handler(w http.ResponseWriter, r *http.Request) {
	tag := r.URL.Query().Get("id")
	size, _ := strconv.Atoi(r.URL.Query().Get("size"))
	sum := 0
	if r.Body != nil {
		b, _ := io.ReadAll(r.Body)
		for _, c := range b {
			sum += int(c)
		}
	}
	if ms, _ := strconv.Atoi(r.URL.Query().Get("slow")); ms > 0 {
		time.Sleep(time.Duration(ms) * time.Millisecond) // the client may be gone when the answer is written
	}
	w.Header().Set("X-Tag", tag)
	w.Header().Set("X-Sum", strconv.Itoa(sum))
	if size < len(tag)+2 {
		size = len(tag) + 2
	}
	body := tagBody(tag, size)
	switch r.URL.Query().Get("mode") {
	case "cl2":
		// declared length, a small piece first, the rest in one block
		w.Header().Set("Content-Length", strconv.Itoa(len(body)))
		n := len(tag) + 2
		w.Write(body[:n])
		w.Write(body[n:])
	case "pieces":
		for len(body) > 0 {
			n := 30000
			if n > len(body) {
				n = len(body)
			}
			w.Write(body[:n])
			body = body[n:]
		}
	case "flush":
		n := len(body) / 2
		w.Write(body[:n])
		if f, ok := w.(http.Flusher); ok && r.ProtoAtLeast(1, 1) {
			f.Flush()
		}
		w.Write(body[n:])
	default:
		w.Write(body)
	}
}

func runScen(s scen) int {
	cfg := nbhttp.Config{Network: "tcp", Handler: http.HandlerFunc(handler), NPoller: 2, MaxBlockingOnline: 2, KeepaliveTime: 30 * time.Second}
	switch s.IOMod {
	case "blocking":
		cfg.IOMod = nbhttp.IOModBlocking
	case "mixed":
		cfg.IOMod = nbhttp.IOModMixed
	default:
		cfg.IOMod = nbhttp.IOModNonBlocking
	}
	switch s.Mode {
	case "ET":
		cfg.EpollMod = nbio.EPOLLET
	case "OS":
		cfg.EpollMod = nbio.EPOLLET
		cfg.EPOLLONESHOT = nbio.EPOLLONESHOT
	}
	if s.TLS {
		c, k := selfSigned()
		cert, err := ltls.X509KeyPair(c, k)
		if err != nil {
			hlib.Fatal("keypair: %v", err)
		}
		cfg.TLSConfig = &ltls.Config{Certificates: []ltls.Certificate{cert}}
		cfg.AddrsTLS = []string{"127.0.0.1:0"}
	} else {
		cfg.Addrs = []string{"127.0.0.1:0"}
	}
	e := nbhttp.NewEngine(cfg)
	if err := e.Start(); err != nil {
		hlib.Fatal("start %s: %v", s.ID, err)
	}
	addr := ""
	if s.TLS {
		addr = e.AddrsTLS[0]
	} else {
		addr = e.Addrs[0]
	}
	var wg sync.WaitGroup
	// clients that send a request to a slow handler and reset the connection before the answer: the flush of those
	// responses fails while the other connections go on (what is released on that path must not be released twice)
	stopAbort := make(chan struct{})
	var abortWg sync.WaitGroup
	if !s.TLS {
		for a := 0; a < 3; a++ {
			abortWg.Add(1)
			go func() {
				defer abortWg.Done()
				for k := 0; ; k++ {
					select {
					case <-stopAbort:
						return
					default:
					}
					c, err := net.Dial("tcp", addr)
					if err != nil {
						return
					}
					fmt.Fprintf(c, "GET /?id=abort&size=100&slow=10 HTTP/1.1\r\nHost: x\r\n\r\n")
					time.Sleep(2 * time.Millisecond)
					if tc, ok := c.(*net.TCPConn); ok {
						tc.SetLinger(0)
					}
					c.Close()
					time.Sleep(3 * time.Millisecond)
				}
			}()
		}
	}
	for ci, h := range s.Histories {
		ci, h := ci, h
		wg.Add(1)
		go func() {
			defer wg.Done()
			runConn(fmt.Sprintf("%s/c%d", s.ID, ci), fmt.Sprintf("k%dx", ci), addr, s.TLS, h, s.SlowRead)
		}()
	}
	wg.Wait()
	close(stopAbort)
	abortWg.Wait()
	done := make(chan struct{})
	go func() { e.Stop(); close(done) }()
	select {
	case <-done:
	case <-time.After(10 * time.Second):
	}
	return len(s.Histories)
}

func runConn(id, connTag, addr string, useTLS bool, h history, slow bool) {
	var evs []hlib.Ev
	defer func() { emitBlock(id, evs) }()
	evs = append(evs, hlib.Ev{"ev": "plan", "n": len(h.Reqs), "closeafter": h.CloseAfter})
	var c net.Conn
	raw, err := net.Dial("tcp", addr)
	if err != nil {
		hlib.Fatal("dial %s: %v", addr, err)
	}
	co := &coalesce{Conn: raw}
	c = co
	if useTLS {
		tc := stdtls.Client(co, &stdtls.Config{InsecureSkipVerify: true})
		if err := tc.Handshake(); err != nil {
			hlib.Fatal("tls handshake %s: %v", addr, err)
		}
		c = tc
	}
	defer c.Close()
	br := bufio.NewReaderSize(c, 4096)
	nresp := 0
	readResp := func(k int) bool {
		c.SetReadDeadline(time.Now().Add(8 * time.Second))
		resp, err := http.ReadResponse(br, &http.Request{Method: "GET"})
		if err != nil {
			return false
		}
		var body []byte
		if slow {
			// a slow reader: the response has to wait in the server's write queue
			buf := make([]byte, 8192)
			for {
				n, e := resp.Body.Read(buf)
				body = append(body, buf[:n]...)
				if e != nil {
					err = e
					break
				}
				time.Sleep(200 * time.Microsecond)
			}
			if err == io.EOF {
				err = nil
			}
		} else {
			body, err = io.ReadAll(resp.Body)
		}
		tag := resp.Header.Get("X-Tag")
		foreign := false
		// any tag marker of another connection inside the body?
		for _, m := range bytes.Split(body, []byte("<")) {
			if i := bytes.IndexByte(m, '>'); i > 0 && i < 24 && bytes.HasPrefix(m, []byte("k")) && !bytes.HasPrefix(m, []byte(connTag)) {
				foreign = true
			}
		}
		if tag != "" && !strings.HasPrefix(tag, connTag) {
			foreign = true
		}
		evs = append(evs, hlib.Ev{"ev": "resp", "k": k, "tag": tag, "status": resp.StatusCode, "complete": err == nil,
			"bodyok": err == nil && bytes.Equal(body, tagBody(tag, len(body))), "foreign": foreign, "len": len(body)})
		nresp = k
		return err == nil
	}
	answered := 0
	var batch bytes.Buffer
	var chunks [][]byte
	pendingFrom := 1
	flushBatch := func(upto int) bool {
		if len(chunks) == 0 {
			return true
		}
		// pipelined requests go out back to back, one write (one TLS record) each: the server may get several at once
		co.mu.Lock()
		co.hold = len(chunks) > 1 && (len(chunks)+len(connTag))%2 == 0 // half of the batches leave in a single TCP write
		co.mu.Unlock()
		for _, ch := range chunks {
			if _, err := c.Write(ch); err != nil {
				return false
			}
		}
		if err := co.release(); err != nil {
			return false
		}
		chunks = nil
		for k := pendingFrom; k <= upto; k++ {
			if !readResp(k) {
				return false
			}
			answered = k
		}
		pendingFrom = upto + 1
		return true
	}
	ok := true
	for i, r := range h.Reqs {
		k := i + 1
		tag := fmt.Sprintf("%s%d", connTag, k)
		if r.Flush && i > 0 {
			if ok = flushBatch(i); !ok {
				break
			}
		}
		method := "GET"
		if r.Post {
			method = "POST"
		}
		mode := []string{"plain", "cl2", "pieces", "flush"}[(k+len(connTag))%4]
		fmt.Fprintf(&batch, "%s /echo?id=%s&size=%d&mode=%s HTTP/%s\r\nHost: verif\r\n", method, tag, r.RespSize, mode, r.Ver)
		if r.Conn != "" {
			fmt.Fprintf(&batch, "Connection: %s\r\n", r.Conn)
		}
		if r.Post {
			fmt.Fprintf(&batch, "Content-Length: %d\r\n\r\n", r.ReqSize)
			batch.Write(bytes.Repeat([]byte{'q'}, r.ReqSize))
		} else {
			batch.WriteString("\r\n")
		}
		chunks = append(chunks, append([]byte(nil), batch.Bytes()...))
		batch.Reset()
		evs = append(evs, hlib.Ev{"ev": "req", "k": k, "tag": tag})
	}
	if ok {
		ok = flushBatch(len(h.Reqs))
	}
	_ = answered
	// after the last response: closed or kept open?
	c.SetReadDeadline(time.Now().Add(400 * time.Millisecond))
	one := make([]byte, 1)
	_, err = br.Read(one)
	if err == nil {
		evs = append(evs, hlib.Ev{"ev": "resp", "k": nresp + 1, "tag": "(extra bytes)", "status": 0, "complete": false, "bodyok": false, "foreign": false, "len": 1})
		return
	}
	if ne, isNet := err.(net.Error); isNet && ne.Timeout() {
		evs = append(evs, hlib.Ev{"ev": "open", "after": nresp})
	} else {
		evs = append(evs, hlib.Ev{"ev": "eof", "after": nresp})
	}
}

// ---- client leg: nbhttp.Client against a raw scripted server ----
func runClientLeg(id string, n int) int {
	// reserve an address; the server comes up on it only after the first requests have failed
	l0, err := net.Listen("tcp", "127.0.0.1:0")
	if err != nil {
		hlib.Fatal("listen: %v", err)
	}
	addr := l0.Addr().String()
	l0.Close()
	var ln net.Listener
	up := make(chan struct{})
	var served int32
	go func() {
		time.Sleep(150 * time.Millisecond)
		for i := 0; i < 50; i++ {
			ln, err = net.Listen("tcp", addr)
			if err == nil {
				break
			}
			time.Sleep(10 * time.Millisecond)
		}
		close(up)
		if ln == nil {
			return
		}
		for {
			c, err := ln.Accept()
			if err != nil {
				return
			}
			go func(c net.Conn) {
				defer c.Close()
				br := bufio.NewReader(c)
				for {
					r, err := http.ReadRequest(br)
					if err != nil {
						return
					}
					io.Copy(io.Discard, r.Body)
					k := atomic.AddInt32(&served, 1)
					tag := r.URL.Query().Get("id")
					body := tagBody(tag, 64+int(k%5)*30000)
					if k%7 == 0 {
						time.Sleep(3 * time.Millisecond)
					}
					if k%11 == 0 {
						return // the server drops the connection instead of answering
					}
					fmt.Fprintf(c, "HTTP/1.1 200 OK\r\nX-Tag: %s\r\nContent-Length: %d\r\n\r\n", tag, len(body))
					c.Write(body)
				}
			}(c)
		}
	}()
	engine := nbhttp.NewEngine(nbhttp.Config{NPoller: 2})
	if err := engine.Start(); err != nil {
		hlib.Fatal("client engine: %v", err)
	}
	defer engine.Stop()
	cli := &nbhttp.Client{Engine: engine, Timeout: 3 * time.Second, MaxConnsPerHost: 4}
	var mu sync.Mutex
	var evs []hlib.Ev
	add := func(e hlib.Ev) { mu.Lock(); evs = append(evs, e); mu.Unlock() }
	var wg sync.WaitGroup
	for i := 0; i < n; i++ {
		i := i
		tag := fmt.Sprintf("cli%d", i)
		if i == 6 {
			<-up // the first requests hit a closed port; from here on the server is there
		}
		rq, _ := http.NewRequest("GET", fmt.Sprintf("http://%s/x?id=%s", addr, tag), nil)
		add(hlib.Ev{"ev": "do", "id": i})
		wg.Add(1)
		var once int32
		cli.Do(rq, func(res *http.Response, conn net.Conn, err error) {
			match := false
			if err == nil && res != nil {
				b, _ := io.ReadAll(res.Body)
				match = res.Header.Get("X-Tag") == tag && bytes.Equal(b, tagBody(tag, len(b)))
			}
			add(hlib.Ev{"ev": "cb", "id": i, "match": match, "err": err != nil})
			if atomic.AddInt32(&once, 1) == 1 {
				wg.Done()
			}
		})
		if i%3 == 0 {
			time.Sleep(300 * time.Microsecond)
		}
	}
	done := make(chan struct{})
	go func() { wg.Wait(); close(done) }()
	select {
	case <-done:
	case <-time.After(8 * time.Second):
	}
	time.Sleep(20 * time.Millisecond)
	add(hlib.Ev{"ev": "cend"})
	if ln != nil {
		ln.Close()
	}
	mu.Lock()
	emitBlock(id, evs)
	mu.Unlock()
	return 1
}

func main() {
	out := flag.String("trace", "", "")
	scens := flag.String("scenarios", "", "")
	clientReqs := flag.Int("client", 60, "")
	flag.Parse()
	logging.SetLevel(logging.LevelNone)
	var err error
	tr, err = hlib.NewTrace(*out)
	if err != nil {
		hlib.Fatal("%v", err)
	}
	var list []scen
	b, err := os.ReadFile(*scens)
	if err != nil {
		hlib.Fatal("%v", err)
	}
	if err := json.Unmarshal(b, &list); err != nil {
		hlib.Fatal("%v", err)
	}
	n := 0
	for _, s := range list {
		n += runScen(s)
	}
	if *clientReqs > 0 {
		n += runClientLeg("client-leg", *clientReqs)
	}
	tr.Close()
	fmt.Printf("{\"connections\": %d}\n", n)
	os.Exit(0)
}
