// Command stoplife is the real-kernel leg (direction V) of C18: for each scenario an engine (core nbio, or
// nbhttp in one of its I/O modes) is started, a history of accepts, dials, transferred connections,
// in-flight writes, pending timers and closes is produced, and Stop / Shutdown is called -- alone, or racing
// with late accepts (a gate listener delivers a connection accepted just before the listener was closed),
// connection storms, peers closing, dials, or immediately after Start.  Recorded: whether Stop returned
// within the bound, open / close notifications at that moment, goroutines and descriptors before Start and
// after Stop, and whether every peer saw its connection closed.  Validated by TLC against StopMonTrace.
package main

import (
	"bufio"
	"context"
	"encoding/json"
	"flag"
	"fmt"
	"io"
	"net"
	"net/http"
	"os"
	"runtime"
	"sync"
	"sync/atomic"
	"syscall"
	"time"

	"github.com/lesismal/nbio"
	"github.com/lesismal/nbio/logging"
	"github.com/lesismal/nbio/nbhttp"
	"github.com/lesismal/nbio/nbhttp/websocket"

	"verifharness/hlib"
)

type scen struct {
	ID       string `json:"id"`
	Kind     string `json:"kind"` // core | http-nb | http-blk | http-mixed
	Mode     string `json:"mode"` // LT | ET | OS
	NPoller  int    `json:"npoller"`
	NListen  int    `json:"nlisten"`
	Async    bool   `json:"async"`    // core: AsyncReadInPoller
	Idle     int    `json:"idle"`     // accepted connections that stay idle
	Writing  int    `json:"writing"`  // accepted connections with a backed-up write (peer does not read)
	Timers   int    `json:"timers"`   // accepted connections with pending deadlines
	Sendfile int    `json:"sendfile"` // core: accepted connections with a queued Sendfile (peer does not read)
	WFail    int    `json:"wfail"`    // core: accepted connections on which a Write failed (peer reset) before Stop
	DialTO   int    `json:"dialto"`   // core: dials that hit their timeout before Stop
	Dials    int    `json:"dials"`    // core: DialAsync connections established before Stop
	PendDial int    `json:"penddial"` // core: dials still in progress (black hole) at Stop
	Transfer int    `json:"transfer"` // http-blk: websocket connections transferred to the poller
	Race     string `json:"race"`     // none | lateaccept | slowopen | storm | immediate | peerclose | dialrace | closerace
	Stopper  string `json:"stopper"`  // stop | shutdown
	DelayUs  int    `json:"delayus"`  // lateaccept: how long after Close the held connection is delivered
}

var tr *hlib.Trace
var stopReturned, slowNext, inSlowOpen, unseenOpen int32
var seenAddr sync.Map

func countFds() int {
	d, err := os.ReadDir("/proc/self/fd")
	if err != nil {
		return -1
	}
	return len(d)
}

// gate delivers the connection accepted while `hold` is set only after the listener was closed: an accept
// that completed just before the close, on a goroutine that was descheduled before it could go on.
type gate struct {
	net.Listener
	hold    int32
	closed  chan struct{}
	once    sync.Once
	delay   time.Duration
	heldCnt int32
}

func (g *gate) Accept() (net.Conn, error) {
	c, err := g.Listener.Accept()
	if err == nil && atomic.CompareAndSwapInt32(&g.hold, 1, 0) {
		atomic.AddInt32(&g.heldCnt, 1)
		<-g.closed
		time.Sleep(g.delay)
	}
	return c, err
}

func (g *gate) Close() error {
	g.once.Do(func() { close(g.closed) })
	return g.Listener.Close()
}

// blackhole is a loopback listener whose accept queue is full: further connects stay in progress.
var blackholeAddr string
var blackholeFillers []net.Conn

func initBlackhole() {
	lfd, err := syscall.Socket(syscall.AF_INET, syscall.SOCK_STREAM, 0)
	if err != nil {
		return
	}
	if syscall.Bind(lfd, &syscall.SockaddrInet4{Addr: [4]byte{127, 0, 0, 1}}) != nil || syscall.Listen(lfd, 0) != nil {
		syscall.Close(lfd)
		return
	}
	sa, _ := syscall.Getsockname(lfd)
	addr := fmt.Sprintf("127.0.0.1:%d", sa.(*syscall.SockaddrInet4).Port)
	for i := 0; i < 16; i++ {
		c, err := net.DialTimeout("tcp", addr, 300*time.Millisecond)
		if err != nil {
			blackholeAddr = addr // (the fillers and the listener live as long as the process)
			return
		}
		blackholeFillers = append(blackholeFillers, c)
	}
}

var bigFile string

func initBigFile() {
	f, err := os.CreateTemp("", "verif-stoplife-*")
	if err != nil {
		return
	}
	f.Truncate(16 << 20)
	f.Close()
	bigFile = f.Name()
}

type client struct {
	c    net.Conn
	kind string
}

func main() {
	out := flag.String("trace", "", "")
	scens := flag.String("scenarios", "", "")
	flag.Parse()
	logging.SetLevel(logging.LevelNone)
	var err error
	tr, err = hlib.NewTrace(*out)
	if err != nil {
		hlib.Fatal("%v", err)
	}
	var list []scen
	b, err := os.ReadFile(*scens)
	if err != nil {
		hlib.Fatal("%v", err)
	}
	if err := json.Unmarshal(b, &list); err != nil {
		hlib.Fatal("%v", err)
	}
	initBlackhole()
	initBigFile()
	if bigFile != "" {
		defer os.Remove(bigFile)
	}
	// warm-up: the runtime's own descriptors (netpoll) and goroutines exist before the first baseline
	warm := scen{ID: "warmup", Kind: "core", Mode: "LT", NPoller: 1, NListen: 1, Idle: 1, Race: "none", Stopper: "stop"}
	runScen(warm, false)
	warm.Kind = "http-nb"
	runScen(warm, false)
	hung := 0
	for _, s := range list {
		if !runScen(s, true) {
			hung++
			if hung >= 3 {
				break // too many stuck engines pollute the baselines: the orchestrator restarts the driver
			}
		}
	}
	tr.Close()
	if bigFile != "" {
		os.Remove(bigFile)
	}
	fmt.Printf("{\"scenarios\": %d, \"hung\": %d}\n", len(list), hung)
	os.Exit(0)
}

func settle(baseG, baseF int) (int, int) {
	var g, f int
	for i := 0; i < 60; i++ {
		g, f = runtime.NumGoroutine(), countFds()
		if g <= baseG && f <= baseF {
			break
		}
		time.Sleep(50 * time.Millisecond)
	}
	return g, f
}

func runScen(s scen, emit bool) bool {
	ev := func(e hlib.Ev) {
		if emit {
			tr.Emit(e)
		}
	}
	runtime.GC()
	time.Sleep(20 * time.Millisecond)
	baseG, baseF := runtime.NumGoroutine(), countFds()
	ev(hlib.Ev{"ev": "reset", "id": s.ID, "kind": s.Kind, "mode": s.Mode, "race": s.Race, "stopper": s.Stopper, "core": s.Kind == "core"})
	ev(hlib.Ev{"ev": "base", "goroutines": baseG, "fds": baseF})
	if emit {
		tr.Sync()
	}

	var opens, closes int32
	var gates []*gate
	listen := func(network, addr string) (net.Listener, error) {
		ln, err := net.Listen(network, addr)
		if err != nil {
			return nil, err
		}
		g := &gate{Listener: ln, closed: make(chan struct{}), delay: time.Duration(s.DelayUs) * time.Microsecond}
		gates = append(gates, g)
		return g, nil
	}
	nl := s.NListen
	if nl <= 0 {
		nl = 1
	}
	addrs := make([]string, nl)
	for i := range addrs {
		addrs[i] = "127.0.0.1:0"
	}
	var stop func()
	var shutdown func(ctx context.Context) error
	var core *nbio.Engine
	var srvAddrs []string
	var serverConns sync.Map
	switch s.Kind {
	case "core":
		cfg := nbio.Config{Network: "tcp", Addrs: addrs, NPoller: s.NPoller, Listen: listen, AsyncReadInPoller: s.Async}
		setMode(&cfg.EpollMod, &cfg.EPOLLONESHOT, s.Mode)
		g := nbio.NewEngine(cfg)
		g.OnOpen(func(c *nbio.Conn) {
			atomic.AddInt32(&opens, 1)
			serverConns.Store(c, true)
			if atomic.CompareAndSwapInt32(&slowNext, 1, 0) {
				atomic.StoreInt32(&inSlowOpen, 1)
				time.Sleep(5 * time.Millisecond) // Stop is called while this callback runs
			}
		})
		g.OnClose(func(c *nbio.Conn, err error) { atomic.AddInt32(&closes, 1) })
		g.OnData(func(c *nbio.Conn, data []byte) {
			switch string(data[:1]) {
			case "W": // write more than the peer will ever read
				c.Write(make([]byte, 8<<20))
			case "T":
				c.SetReadDeadline(time.Now().Add(time.Hour))
				c.SetWriteDeadline(time.Now().Add(time.Hour))
			case "R": // the peer resets while the application keeps writing: one of the writes fails
				for k := 0; k < 300; k++ {
					if _, err := c.Write(make([]byte, 64<<10)); err != nil {
						break
					}
					time.Sleep(500 * time.Microsecond)
				}
			case "F": // a file much bigger than the socket buffers: the rest is queued as a file entry
				if f, err := os.Open(bigFile); err == nil {
					c.Sendfile(f, 0)
					f.Close()
				}
			}
		})
		core = g
		if s.Race == "immediate" {
			// Stop follows Start at once
			if err := g.Start(); err != nil {
				hlib.Fatal("start: %v", err)
			}
			return finish(s, ev, g.Stop, g.Shutdown, nil, &opens, &closes, baseG, baseF, nil)
		}
		if err := g.Start(); err != nil {
			hlib.Fatal("start: %v", err)
		}
		stop, shutdown = g.Stop, g.Shutdown
		srvAddrs = g.Addrs
	default:
		cfg := nbhttp.Config{Network: "tcp", Addrs: addrs, NPoller: s.NPoller, Listen: listen, MaxBlockingOnline: 3,
			KeepaliveTime: time.Hour}
		setMode(&cfg.EpollMod, &cfg.EPOLLONESHOT, s.Mode)
		switch s.Kind {
		case "http-blk":
			cfg.IOMod = nbhttp.IOModBlocking
		case "http-mixed":
			cfg.IOMod = nbhttp.IOModMixed
		default:
			cfg.IOMod = nbhttp.IOModNonBlocking
		}
		mux := &http.ServeMux{}
		cfg.Handler = mux
		e := nbhttp.NewEngine(cfg)
		u := websocket.NewUpgrader()
		u.Engine = e
		u.CheckOrigin = func(r *http.Request) bool { return true }
		u.BlockingModTrasferConnToPoller = true
		u.OnMessage(func(c *websocket.Conn, mt websocket.MessageType, data []byte) {})
		mux.HandleFunc("/ws", func(w http.ResponseWriter, r *http.Request) { u.Upgrade(w, r, nil) })
		mux.HandleFunc("/", func(w http.ResponseWriter, r *http.Request) {
			if r.URL.Query().Get("big") != "" {
				w.Write(make([]byte, 8<<20))
				return
			}
			w.Write([]byte("ok"))
		})
		e.OnOpen(func(c net.Conn) {
			atomic.AddInt32(&opens, 1)
			if a := c.RemoteAddr(); a != nil {
				seenAddr.Store(a.String(), true)
			}
			if atomic.CompareAndSwapInt32(&slowNext, 1, 0) {
				atomic.StoreInt32(&inSlowOpen, 1)
				time.Sleep(5 * time.Millisecond)
			}
		})
		e.OnClose(func(c net.Conn, err error) { atomic.AddInt32(&closes, 1) })
		if err := e.Start(); err != nil {
			hlib.Fatal("start: %v", err)
		}
		stop, shutdown = e.Stop, e.Shutdown
		if s.Race == "immediate" {
			return finish(s, ev, stop, shutdown, nil, &opens, &closes, baseG, baseF, nil)
		}
		srvAddrs = e.Addrs
	}

	// ---- history before Stop ----
	var clients []*client
	dial := func(kind string) *client {
		c, err := net.Dial("tcp", srvAddrs[len(clients)%len(srvAddrs)])
		if err != nil {
			hlib.Fatal("dial: %v", err)
		}
		cl := &client{c: c, kind: kind}
		clients = append(clients, cl)
		return cl
	}
	isHTTP := s.Kind != "core"
	for i := 0; i < s.Idle; i++ {
		cl := dial("idle")
		if isHTTP && i%2 == 0 {
			// one complete exchange, then keep-alive
			fmt.Fprintf(cl.c, "GET / HTTP/1.1\r\nHost: x\r\n\r\n")
			cl.c.SetReadDeadline(time.Now().Add(3 * time.Second))
			buf := make([]byte, 4096)
			cl.c.Read(buf)
		} else if isHTTP && i%2 == 1 {
			fmt.Fprintf(cl.c, "GET / HTTP/1.1\r\nHo") // in the middle of a request
		}
	}
	for i := 0; i < s.Writing; i++ {
		cl := dial("writing")
		if isHTTP {
			fmt.Fprintf(cl.c, "GET /?big=1 HTTP/1.1\r\nHost: x\r\n\r\n")
		} else {
			cl.c.Write([]byte("W"))
		}
	}
	for i := 0; i < s.Timers; i++ {
		cl := dial("timers")
		if !isHTTP {
			cl.c.Write([]byte("T"))
		}
	}
	for i := 0; i < s.Sendfile && !isHTTP && bigFile != ""; i++ {
		cl := dial("sendfile")
		cl.c.Write([]byte("F"))
	}
	for i := 0; i < s.WFail && !isHTTP; i++ {
		cl := dial("wfail")
		cl.c.Write([]byte("R"))
		if tc, ok := cl.c.(*net.TCPConn); ok {
			tc.SetLinger(0)
		}
		time.Sleep(2 * time.Millisecond)
		cl.c.Close() // RST
	}
	if s.WFail > 0 && !isHTTP {
		time.Sleep(100 * time.Millisecond) // the failed write and the close handling happen before Stop
	}
	for i := 0; i < s.Transfer; i++ {
		cl := dial("transfer")
		br := newReader(cl.c)
		if err := hlib.WsHandshake(cl.c, br, "/ws", nil, false); err != nil {
			hlib.Fatal("ws handshake: %v", err)
		}
	}
	// dialed connections of the core engine (to a plain listener of the harness)
	var peerLn net.Listener
	var peerConns []net.Conn
	var peerMu sync.Mutex
	peerClosed := false
	var dialed int32
	if core != nil && (s.Dials > 0 || s.Race == "dialrace") {
		peerLn, _ = net.Listen("tcp", "127.0.0.1:0")
		go func() {
			for {
				c, err := peerLn.Accept()
				if err != nil {
					return
				}
				peerMu.Lock()
				if peerClosed {
					c.Close() // accepted while the harness was already cleaning up
				} else {
					peerConns = append(peerConns, c)
				}
				peerMu.Unlock()
			}
		}()
		for i := 0; i < s.Dials; i++ {
			err := core.DialAsync("tcp", peerLn.Addr().String(), func(c *nbio.Conn, err error) {
				if err == nil {
					atomic.AddInt32(&dialed, 1)
				}
			})
			if err != nil {
				hlib.Fatal("DialAsync: %v", err)
			}
			atomic.AddInt32(&opens, 1) // a dial the engine accepted is an open connection (its close is notified)
		}
	}
	for i := 0; i < s.PendDial && core != nil && blackholeAddr != ""; i++ {
		// still connecting when Stop is called
		if core.DialAsyncTimeout("tcp", blackholeAddr, 30*time.Second, func(c *nbio.Conn, err error) {}) == nil {
			atomic.AddInt32(&opens, 1)
		}
	}
	for i := 0; i < s.DialTO && core != nil && blackholeAddr != ""; i++ {
		// gave up connecting before Stop is called
		if core.DialAsyncTimeout("tcp", blackholeAddr, 20*time.Millisecond, func(c *nbio.Conn, err error) {}) == nil {
			atomic.AddInt32(&opens, 1)
		}
	}
	if s.DialTO > 0 {
		time.Sleep(60 * time.Millisecond)
	}
	// wait until the server has seen the history
	want := int32(len(clients) + s.Dials)
	for i := 0; i < 200 && (atomic.LoadInt32(&opens) < want || atomic.LoadInt32(&dialed) < int32(s.Dials)); i++ {
		time.Sleep(5 * time.Millisecond)
	}
	time.Sleep(20 * time.Millisecond)
	ev(hlib.Ev{"ev": "history", "clients": len(clients), "dials": s.Dials, "opens": atomic.LoadInt32(&opens)})

	// ---- the race ----
	var raceWg sync.WaitGroup
	stopRace := make(chan struct{})
	var late []*client
	var lateMu sync.Mutex
	switch s.Race {
	case "lateaccept":
		for _, g := range gates {
			atomic.StoreInt32(&g.hold, 1)
		}
		for i := range gates {
			c, err := net.Dial("tcp", srvAddrs[i%len(srvAddrs)])
			if err == nil {
				late = append(late, &client{c: c, kind: "late"})
			}
		}
		// the acceptors are now parked inside the gate with an accepted connection each
		for i := 0; i < 100; i++ {
			n := int32(0)
			for _, g := range gates {
				n += atomic.LoadInt32(&g.heldCnt)
			}
			if int(n) >= len(late) {
				break
			}
			time.Sleep(2 * time.Millisecond)
		}
	case "slowopen":
		atomic.StoreInt32(&inSlowOpen, 0)
		atomic.StoreInt32(&slowNext, 1)
		if c, err := net.Dial("tcp", srvAddrs[0]); err == nil {
			late = append(late, &client{c: c, kind: "slowopen"})
		}
		for i := 0; i < 400 && atomic.LoadInt32(&inSlowOpen) == 0; i++ {
			time.Sleep(50 * time.Microsecond)
		}
	case "storm":
		for w := 0; w < 4; w++ {
			raceWg.Add(1)
			go func() {
				defer raceWg.Done()
				for {
					select {
					case <-stopRace:
						return
					default:
					}
					c, err := net.DialTimeout("tcp", srvAddrs[0], 200*time.Millisecond)
					if err != nil {
						time.Sleep(time.Millisecond)
						continue
					}
					lateMu.Lock()
					late = append(late, &client{c: c, kind: "storm"})
					lateMu.Unlock()
				}
			}()
		}
		time.Sleep(5 * time.Millisecond)
	case "peerclose":
		raceWg.Add(1)
		go func() {
			defer raceWg.Done()
			for _, cl := range clients {
				cl.c.Close()
			}
		}()
	case "closerace":
		// the application closes its connections itself while Stop runs
		raceWg.Add(1)
		go func() {
			defer raceWg.Done()
			serverConns.Range(func(k, v interface{}) bool {
				k.(*nbio.Conn).Close()
				return true
			})
		}()
	case "dialrace":
		if core != nil {
			for w := 0; w < 2; w++ {
				raceWg.Add(1)
				go func() {
					defer raceWg.Done()
					for i := 0; i < 50; i++ {
						select {
						case <-stopRace:
							return
						default:
						}
						if atomic.LoadInt32(&stopReturned) != 0 {
							return // dials on a stopped engine are not part of the property
						}
						if core.DialAsync("tcp", peerLn.Addr().String(), func(c *nbio.Conn, err error) {}) == nil {
							atomic.AddInt32(&opens, 1)
						}
						time.Sleep(50 * time.Microsecond)
					}
				}()
			}
		}
	}
	cleanup := func() {
		close(stopRace)
		raceWg.Wait()
		if peerLn != nil {
			peerLn.Close()
			peerMu.Lock()
			peerClosed = true
			for _, c := range peerConns {
				c.Close()
			}
			peerMu.Unlock()
		}
	}
	lateMu.Lock()
	all := append([]*client{}, clients...)
	lateMu.Unlock()
	return finish(s, ev, stop, shutdown, func() []*client {
		lateMu.Lock()
		defer lateMu.Unlock()
		return append(all, late...)
	}, &opens, &closes, baseG, baseF, cleanup)
}

func finish(s scen, ev func(hlib.Ev), stop func(), shutdown func(context.Context) error, clientsOf func() []*client,
	opens, closes *int32, baseG, baseF int, cleanup func()) bool {
	done := make(chan error, 1)
	atomic.StoreInt32(&stopReturned, 0)
	t0 := time.Now()
	ev(hlib.Ev{"ev": "stopcall"})
	go func() {
		defer func() {
			if r := recover(); r != nil {
				done <- fmt.Errorf("panic: %v", r)
			}
		}()
		if s.Stopper == "shutdown" {
			ctx, cancel := context.WithTimeout(context.Background(), 20*time.Second)
			defer cancel()
			done <- shutdown(ctx)
		} else {
			stop()
			done <- nil
		}
	}()
	returned := false
	errs := ""
	select {
	case err := <-done:
		atomic.StoreInt32(&stopReturned, 1)
		returned = true
		if err != nil {
			errs = err.Error()
		}
	case <-time.After(8 * time.Second):
	}
	o, c := atomic.LoadInt32(opens), atomic.LoadInt32(closes)
	ev(hlib.Ev{"ev": "stopret", "returned": returned && errs == "", "err": errs, "ms": int(time.Since(t0) / time.Millisecond), "opens": o, "closes": c})
	if cleanup != nil {
		cleanup()
	}
	// every peer must see its connection closed
	open := 0
	total := 0
	if clientsOf != nil {
		var wg sync.WaitGroup
		var stillOpen int32
		cls := clientsOf()
		total = len(cls)
		for _, cl := range cls {
			cl := cl
			wg.Add(1)
			go func() {
				defer wg.Done()
				cl.c.SetReadDeadline(time.Now().Add(1500 * time.Millisecond))
				_, err := io.Copy(io.Discard, cl.c)
				if ne, ok := err.(net.Error); ok && ne.Timeout() {
					// A connection the kernel completed but the listener never accepted (it was still in the
					// listen queue when the listener was closed) is not a managed connection: the kernel
					// answers the next segment with a reset.
					cl.c.Write([]byte("x"))
					cl.c.SetReadDeadline(time.Now().Add(1000 * time.Millisecond))
					_, err = io.Copy(io.Discard, cl.c)
					if ne, ok := err.(net.Error); ok && ne.Timeout() {
						atomic.AddInt32(&stillOpen, 1)
						if _, seen := seenAddr.Load(cl.c.LocalAddr().String()); !seen {
							atomic.AddInt32(&unseenOpen, 1)
						}
					}
				}
				cl.c.Close()
			}()
		}
		wg.Wait()
		open = int(stillOpen)
	}
	ev(hlib.Ev{"ev": "peers", "total": total, "stillopen": open, "unseen": atomic.SwapInt32(&unseenOpen, 0)})
	g, f := settle(baseG, baseF)
	ev(hlib.Ev{"ev": "after", "goroutines": g, "fds": f, "basegoroutines": baseG, "basefds": baseF,
		"opens": atomic.LoadInt32(opens), "closes": atomic.LoadInt32(closes)})
	ev(hlib.Ev{"ev": "end"})
	if tr != nil {
		tr.Sync()
	}
	return returned
}

func setMode(mod *uint32, oneshot *uint32, m string) {
	switch m {
	case "ET":
		*mod = nbio.EPOLLET
	case "OS":
		*mod = nbio.EPOLLET
		*oneshot = nbio.EPOLLONESHOT
	}
}

func newReader(c net.Conn) *bufio.Reader { return bufio.NewReader(c) }
