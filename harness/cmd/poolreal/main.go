// Command poolreal is the recorded leg (direction V) of C19 for taskpool.TaskPool: bursts above the
// bound, a full queue, panicking tasks, submissions racing Stop, and the capacity probe (a barrier
// of mutually waiting tasks) on a fresh pool and again after overload.  Events are validated by TLC
// against PoolMonTrace.
package main

import (
	"encoding/json"
	"flag"
	"fmt"
	"math/rand"
	"os"
	"runtime"
	"strconv"
	"sync"
	"sync/atomic"
	"time"

	"github.com/lesismal/nbio/logging"
	"github.com/lesismal/nbio/taskpool"

	"verifharness/hlib"
)

type scen struct {
	ID    string `json:"id"`
	Bound int    `json:"bound"`
	Queue int    `json:"queue"`
	Subs  int    `json:"subs"`
	Tasks int    `json:"tasks"`
	Stop  bool   `json:"stop"`
	IO    bool   `json:"io"` // taskpool.NewIO (the engine's default IOExecute) instead of taskpool.New
	Procs int    `json:"gomaxprocs"`
	Seed  int64  `json:"seed"`
	Leg   string `json:"leg"`
}

type summary struct {
	Scenarios []scen `json:"scenarios"`
	Tasks     int    `json:"tasks"`
	Overload  int    `json:"overloaded"`
}

var tr *hlib.Trace

// barrier runs k tasks that each wait for all the others; true if they all met within the timeout.
// gopool is what TaskPool and IOTaskPool have in common for this driver
type gopool interface {
	Go(func())
	Stop()
}

type ioAdapter struct{ p *taskpool.IOTaskPool }

func (a ioAdapter) Go(f func()) { a.p.Go(func(*[]byte) { f() }) }
func (a ioAdapter) Stop()       { a.p.Stop() }

func mkPool(s scen) gopool {
	if s.IO {
		return ioAdapter{taskpool.NewIO(s.Bound, s.Queue, 64)}
	}
	return taskpool.New(s.Bound, s.Queue)
}

func barrier(tp gopool, k int, tag string, timeout time.Duration) bool {
	var arrived int32
	release := make(chan struct{})
	all := make(chan struct{})
	var done sync.WaitGroup
	for i := 0; i < k; i++ {
		id := tag + "." + strconv.Itoa(i)
		done.Add(1)
		tr.Emit(hlib.Ev{"ev": "submit", "j": id})
		tp.Go(func() {
			tr.Emit(hlib.Ev{"ev": "start", "j": id})
			if int(atomic.AddInt32(&arrived, 1)) == k {
				close(all)
			}
			<-release
			tr.Emit(hlib.Ev{"ev": "end", "j": id})
			done.Done()
		})
	}
	ok := false
	select {
	case <-all:
		ok = true
	case <-time.After(timeout):
	}
	close(release)
	w := make(chan struct{})
	go func() { done.Wait(); close(w) }()
	select {
	case <-w:
	case <-time.After(5 * time.Second):
	}
	return ok
}

func main() {
	out := flag.String("trace", "", "")
	scens := flag.String("scenarios", "", "")
	flag.Parse()
	logging.SetLevel(logging.LevelNone)
	var err error
	tr, err = hlib.NewTrace(*out)
	if err != nil {
		hlib.Fatal("%v", err)
	}
	var list []scen
	b, err := os.ReadFile(*scens)
	if err != nil {
		hlib.Fatal("%v", err)
	}
	if err := json.Unmarshal(b, &list); err != nil {
		hlib.Fatal("%v", err)
	}
	var sum summary
	for _, s := range list {
		run(s, &sum)
	}
	if err := tr.Close(); err != nil {
		hlib.Fatal("%v", err)
	}
	jb, _ := json.Marshal(sum)
	fmt.Println(string(jb))
	os.Exit(0)
}

func run(s scen, sum *summary) {
	old := runtime.GOMAXPROCS(s.Procs)
	defer runtime.GOMAXPROCS(old)
	sum.Scenarios = append(sum.Scenarios, s)
	tr.Emit(hlib.Ev{"ev": "reset", "id": s.ID, "bound": s.Bound})
	// K0: capacity of a fresh pool
	k0 := 0
	for k := s.Bound; k >= 1; k-- {
		fresh := mkPool(s)
		ok := barrier(fresh, k, fmt.Sprintf("fresh%d", k), 500*time.Millisecond)
		fresh.Stop()
		if ok {
			k0 = k
			break
		}
	}
	tr.Emit(hlib.Ev{"ev": "k0", "k": k0})
	tp := mkPool(s)
	rnd := rand.New(rand.NewSource(s.Seed))
	var wg sync.WaitGroup
	var jobs sync.WaitGroup
	var stopping int32
	var maxRun, running int32
	panicAt := rnd.Intn(s.Subs * s.Tasks)
	start := make(chan struct{})
	for si := 0; si < s.Subs; si++ {
		si := si
		r := rand.New(rand.NewSource(s.Seed + int64(si)*104729))
		wg.Add(1)
		go func() {
			defer wg.Done()
			<-start
			for k := 0; k < s.Tasks; k++ {
				id := "s" + strconv.Itoa(si) + "." + strconv.Itoa(k)
				dur := time.Duration(r.Intn(200)) * time.Microsecond
				doPanic := si*s.Tasks+k == panicAt
				late := atomic.LoadInt32(&stopping) != 0
				if !late {
					jobs.Add(1)
				}
				tr.Emit(hlib.Ev{"ev": "submit", "j": id})
				tp.Go(func() {
					tr.Emit(hlib.Ev{"ev": "start", "j": id})
					n := atomic.AddInt32(&running, 1)
					for {
						m := atomic.LoadInt32(&maxRun)
						if n <= m || atomic.CompareAndSwapInt32(&maxRun, m, n) {
							break
						}
					}
					if dur > 0 {
						time.Sleep(dur)
					}
					atomic.AddInt32(&running, -1)
					tr.Emit(hlib.Ev{"ev": "end", "j": id})
					if !late {
						jobs.Done()
					}
					if doPanic {
						panic("verif: task panics")
					}
				})
				tr.Emit(hlib.Ev{"ev": "goret", "j": id})
			}
		}()
	}
	close(start)
	if s.Stop {
		time.Sleep(time.Duration(rnd.Intn(2000)) * time.Microsecond)
		atomic.StoreInt32(&stopping, 1)
		tr.Emit(hlib.Ev{"ev": "stopcall"})
		tp.Stop()
	}
	wdone := make(chan struct{})
	go func() { wg.Wait(); close(wdone) }()
	select {
	case <-wdone:
	case <-time.After(30 * time.Second):
	}
	jdone := make(chan struct{})
	go func() { jobs.Wait(); close(jdone) }()
	select {
	case <-jdone:
	case <-time.After(5 * time.Second):
	}
	sum.Tasks += s.Subs * s.Tasks
	if int(atomic.LoadInt32(&maxRun)) >= k0 {
		sum.Overload++
	}
	if s.Stop {
		// tasks submitted before Stop may legitimately be dropped only if their Go raced with Stop;
		// the driver counts as "before Stop" only those whose Go was CALLED before stopcall was logged,
		// and Go's select may still lose the race -- so exactly-once is asserted for pools never stopped.
		time.Sleep(20 * time.Millisecond)
		tr.Emit(hlib.Ev{"ev": "quiesce"})
		return
	}
	time.Sleep(2 * time.Millisecond) // let workers exit
	tr.Emit(hlib.Ev{"ev": "quiesce"})
	// capacity probe after overload + idle
	for k := k0; k >= 1; k-- {
		ok := barrier(tp, k, fmt.Sprintf("probe%d", k), time.Second)
		tr.Emit(hlib.Ev{"ev": "barrier", "k": k, "ok": ok})
		if ok || k < k0 {
			break
		}
	}
	tr.Emit(hlib.Ev{"ev": "quiesce"})
	tp.Stop()
}
