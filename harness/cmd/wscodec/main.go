// Command wscodec runs WebSocket codec scenarios on real websocket.Conn objects built with the
// exported constructors over in-memory connections, and records observations for TLC (WsMonTrace):
//
//	C12  message round trip (roles x compression x frame-size limit x interleaved control frames x cuts);
//	     the sender's wire is also decoded by an independent frame decoder
//	C13  frame sequences generated from WsCodec.tla fed to a receiver; what it delivered / answered /
//	     whether it failed, next to what the spec requires
//	C15  message length limit (single frames, fragments, compressed frames that inflate), control
//	     frame sizes on send and receive, read limit
//	C11  the same scenarios under an ownership-tracking allocator (Config.BodyAllocator)
package main

import (
	"bytes"
	"compress/flate"
	"encoding/binary"
	"encoding/json"
	"flag"
	"fmt"
	"hash/crc32"
	"io"
	"math/rand"
	"net"
	"os"
	"sync"
	"time"

	"github.com/lesismal/nbio/logging"
	"github.com/lesismal/nbio/mempool"
	"github.com/lesismal/nbio/nbhttp"
	"github.com/lesismal/nbio/nbhttp/websocket"

	"verifharness/hlib"
)

type frameSpec struct {
	Fin bool   `json:"fin"`
	Rsv int    `json:"rsv"`
	Op  int    `json:"op"`
	Len int    `json:"len"`
	Pl  string `json:"pl"`
	Enc string `json:"enc"` // "" minimal | "64" 64-bit form | "64top" 64-bit form with the top bit set
}

type msgSpec struct {
	Typ     int    `json:"typ"` // 1 text 2 binary 9 ping 10 pong
	Len     int    `json:"len"`
	Content string `json:"content"` // rand | comp
}

type tcase struct {
	ID       string                 `json:"id"`
	Mode     string                 `json:"mode"`  // C12 | C13 | C15
	Focus    string                 `json:"focus"` // C12 | C13 | C15 | C11
	Client   bool                   `json:"client"`
	Compress bool                   `json:"compress"`
	Level    int                    `json:"level"`
	MaxFrame int                    `json:"maxframe"`
	Limit    int                    `json:"limit"`
	Msgs     []msgSpec              `json:"msgs"`
	Frames   []frameSpec            `json:"frames"`
	Expect   map[string]interface{} `json:"expect"`
	Cut      int                    `json:"cut"` // 0 whole, 1 byte at a time, n>1 pieces of n, -1 seeded random
	Seed     int64                  `json:"seed"`
	Kind     string                 `json:"kind"`
	Inflate  int                    `json:"inflate"`
	Frag     []int                  `json:"frag"`
	ReadLim  int                    `json:"readlimit"`
	Final    bool                   `json:"final"`  // C15 inflate: the deflate stream ends with a BFINAL block
	Splice   bool                   `json:"splice"` // C12: a ping travels between the fragments of every fragmented message
}

type memConn struct {
	mu     sync.Mutex
	out    []byte
	lens   []int // length of every Write (the library writes one frame per Write)
	closed bool
}

func (m *memConn) Write(b []byte) (int, error) {
	m.mu.Lock()
	defer m.mu.Unlock()
	if m.closed {
		return 0, net.ErrClosed
	}
	m.out = append(m.out, b...)
	m.lens = append(m.lens, len(b))
	return len(b), nil
}
func (m *memConn) take() []byte {
	m.mu.Lock()
	defer m.mu.Unlock()
	b := m.out
	m.out = nil
	return b
}
func (m *memConn) takeLens() []int {
	m.mu.Lock()
	defer m.mu.Unlock()
	l := m.lens
	m.lens = nil
	return l
}
func (m *memConn) isClosed() bool                     { m.mu.Lock(); defer m.mu.Unlock(); return m.closed }
func (m *memConn) Read(b []byte) (int, error)         { return 0, io.EOF }
func (m *memConn) Close() error                       { m.mu.Lock(); m.closed = true; m.mu.Unlock(); return nil }
func (m *memConn) LocalAddr() net.Addr                { return &net.TCPAddr{} }
func (m *memConn) RemoteAddr() net.Addr               { return &net.TCPAddr{} }
func (m *memConn) SetDeadline(t time.Time) error      { return nil }
func (m *memConn) SetReadDeadline(t time.Time) error  { return nil }
func (m *memConn) SetWriteDeadline(t time.Time) error { return nil }

// ---- ownership-tracking allocator (same contract as in cmd/httpresp) ----
type tracker struct {
	mu    sync.Mutex
	ids   map[*[]byte]int
	freed map[*[]byte][]byte
	next  int
	on    bool
	live  int
	peak  int
	size  map[*[]byte]int
}

func newTracker(on bool) *tracker {
	return &tracker{ids: map[*[]byte]int{}, freed: map[*[]byte][]byte{}, size: map[*[]byte]int{}, on: on}
}
func (t *tracker) emit(opn string, id int) {
	if t.on {
		tr.Emit(hlib.Ev{"ev": "a", "op": opn, "id": id, "id2": id})
	}
}
func (t *tracker) account(p *[]byte) {
	old := t.size[p]
	t.size[p] = cap(*p)
	t.live += cap(*p) - old
	if t.live > t.peak {
		t.peak = t.live
	}
}
func (t *tracker) Malloc(size int) *[]byte {
	b := make([]byte, size)
	p := &b
	t.mu.Lock()
	t.next++
	t.ids[p] = t.next
	t.emit("malloc", t.next)
	t.account(p)
	t.mu.Unlock()
	return p
}
func (t *tracker) use(opn string, p *[]byte) bool {
	id, ok := t.ids[p]
	if ok {
		t.emit(opn, id)
	}
	return ok
}
func (t *tracker) Realloc(p *[]byte, size int) *[]byte {
	t.mu.Lock()
	defer t.mu.Unlock()
	t.use("realloc", p)
	if size <= cap(*p) {
		*p = (*p)[:size]
	} else {
		nb := make([]byte, size)
		copy(nb, *p)
		*p = nb
	}
	t.account(p)
	return p
}
func (t *tracker) Append(p *[]byte, more ...byte) *[]byte {
	t.mu.Lock()
	defer t.mu.Unlock()
	t.use("append", p)
	*p = append(*p, more...)
	t.account(p)
	return p
}
func (t *tracker) AppendString(p *[]byte, more string) *[]byte {
	t.mu.Lock()
	defer t.mu.Unlock()
	t.use("appendstr", p)
	*p = append(*p, more...)
	t.account(p)
	return p
}
func (t *tracker) Free(p *[]byte) {
	if p == nil {
		return
	}
	t.mu.Lock()
	defer t.mu.Unlock()
	if !t.use("free", p) {
		return
	}
	t.live -= t.size[p]
	t.size[p] = 0
	full := (*p)[:cap(*p)]
	for i := range full {
		full[i] = 0xDD
	}
	t.freed[p] = full
}
func (t *tracker) poisonIntact() bool {
	t.mu.Lock()
	defer t.mu.Unlock()
	for _, full := range t.freed {
		for _, b := range full {
			if b != 0xDD {
				return false
			}
		}
	}
	return true
}

var tr *hlib.Trace

// ---- independent frame codec ----
type frame struct {
	fin, rsv1, rsv2, rsv3, masked, minimal bool
	op                                     int
	payload                                []byte
}

func encodeFrameEnc(fin bool, rsv, op int, payload []byte, masked bool, rnd *rand.Rand, enc string) []byte {
	if enc == "" {
		return encodeFrame(fin, rsv, op, payload, masked, rnd)
	}
	b0 := byte(op & 0x0f)
	if fin {
		b0 |= 0x80
	}
	b0 |= byte(rsv&7) << 4
	var mb byte
	if masked {
		mb = 0x80
	}
	b := []byte{b0, mb | 127}
	var l [8]byte
	binary.BigEndian.PutUint64(l[:], uint64(len(payload)))
	if enc == "64top" {
		l[0] |= 0x80
	}
	b = append(b, l[:]...)
	if masked {
		b = append(b, 1, 2, 3, 4)
		for i, c := range payload {
			b = append(b, c^[]byte{1, 2, 3, 4}[i%4])
		}
	} else {
		b = append(b, payload...)
	}
	return b
}

func encodeFrame(fin bool, rsv, op int, payload []byte, masked bool, rnd *rand.Rand) []byte {
	var b []byte
	b0 := byte(op & 0x0f)
	if fin {
		b0 |= 0x80
	}
	b0 |= byte(rsv&7) << 4
	b = append(b, b0)
	var mb byte
	if masked {
		mb = 0x80
	}
	n := len(payload)
	switch {
	case n <= 125:
		b = append(b, mb|byte(n))
	case n <= 65535:
		b = append(b, mb|126, byte(n>>8), byte(n))
	default:
		b = append(b, mb|127)
		var l [8]byte
		binary.BigEndian.PutUint64(l[:], uint64(n))
		b = append(b, l[:]...)
	}
	if masked {
		key := []byte{byte(rnd.Intn(256)), byte(rnd.Intn(256)), byte(rnd.Intn(256)), byte(rnd.Intn(256))}
		b = append(b, key...)
		for i, c := range payload {
			b = append(b, c^key[i%4])
		}
	} else {
		b = append(b, payload...)
	}
	return b
}

func decodeFrames(b []byte) ([]frame, bool) {
	var out []frame
	for len(b) > 0 {
		if len(b) < 2 {
			return out, false
		}
		f := frame{fin: b[0]&0x80 != 0, rsv1: b[0]&0x40 != 0, rsv2: b[0]&0x20 != 0, rsv3: b[0]&0x10 != 0, op: int(b[0] & 0x0f),
			masked: b[1]&0x80 != 0, minimal: true}
		n := int(b[1] & 0x7f)
		p := 2
		switch n {
		case 126:
			if len(b) < 4 {
				return out, false
			}
			n = int(binary.BigEndian.Uint16(b[2:4]))
			p = 4
			f.minimal = n > 125
		case 127:
			if len(b) < 10 {
				return out, false
			}
			n = int(binary.BigEndian.Uint64(b[2:10]))
			p = 10
			f.minimal = n > 65535
		}
		var key []byte
		if f.masked {
			if len(b) < p+4 {
				return out, false
			}
			key = b[p : p+4]
			p += 4
		}
		if n < 0 || len(b) < p+n {
			return out, false
		}
		f.payload = append([]byte(nil), b[p:p+n]...)
		if f.masked {
			for i := range f.payload {
				f.payload[i] ^= key[i%4]
			}
		}
		out = append(out, f)
		b = b[p+n:]
	}
	return out, true
}

func feed(c *websocket.Conn, wire []byte, cut int, rnd *rand.Rand, onPiece func(n int)) error {
	for len(wire) > 0 {
		n := len(wire)
		switch {
		case cut == 1:
			n = 1
		case cut > 1 && cut < n:
			n = cut
		case cut == -1:
			n = 1 + rnd.Intn(len(wire))
			if rnd.Intn(3) == 0 && n > 16 {
				n = 1 + rnd.Intn(16)
			}
		}
		if n > len(wire) {
			n = len(wire)
		}
		if err := c.Parse(wire[:n]); err != nil {
			return err
		}
		if onPiece != nil {
			onPiece(n)
		}
		wire = wire[n:]
	}
	return nil
}

func content(kind string, n int, rnd *rand.Rand, text bool) []byte {
	b := make([]byte, n)
	if kind == "comp" {
		for i := range b {
			b[i] = "abcabcabd "[i%10]
		}
		return b
	}
	for i := range b {
		if text {
			b[i] = byte(32 + rnd.Intn(95))
		} else {
			b[i] = byte(rnd.Intn(256))
		}
	}
	return b
}

func mkConn(c *tcase, trk *tracker, client bool, limit int, onMsg func(t websocket.MessageType, d []byte)) (*websocket.Conn, *memConn, *nbhttp.Engine) {
	cfg := nbhttp.Config{MaxWebsocketFramePayloadSize: c.MaxFrame, BodyAllocator: trk, ReadLimit: c.ReadLim}
	engine := nbhttp.NewEngine(cfg)
	u := websocket.NewUpgrader()
	u.Engine = engine
	u.EnableCompression(c.Compress)
	if c.Compress && c.Level != 0 {
		_ = u.SetCompressionLevel(c.Level)
	}
	if limit > 0 {
		u.MessageLengthLimit = limit
	}
	u.OnMessage(func(wc *websocket.Conn, t websocket.MessageType, d []byte) { onMsg(t, d) })
	mem := &memConn{}
	var wc *websocket.Conn
	if client {
		wc = websocket.NewClientConn(u, mem, "", c.Compress, false)
	} else {
		wc = websocket.NewServerConn(u, mem, "", c.Compress, false)
	}
	wc.Execute = nbhttp.SyncExecutor
	return wc, mem, engine
}

// ---- C12 ----
func runC12(c *tcase, trk *tracker) {
	rnd := rand.New(rand.NewSource(c.Seed))
	recvd := 0
	recv, _, _ := mkConn(c, trk, !c.Client, 0, func(t websocket.MessageType, d []byte) {
		recvd++
		tr.Emit(hlib.Ev{"ev": "got", "typ": int(t), "len": len(d), "sum": int(crc32.ChecksumIEEE(d))})
	})
	send, smem, _ := mkConn(c, trk, c.Client, 0, func(t websocket.MessageType, d []byte) {})
	var wire []byte
	perr := false
	for i, m := range c.Msgs {
		d := content(m.Content, m.Len, rnd, m.Typ == 1)
		if m.Typ == 1 || m.Typ == 2 {
			tr.Emit(hlib.Ev{"ev": "sent", "i": i, "typ": m.Typ, "len": len(d), "sum": int(crc32.ChecksumIEEE(d))})
		}
		if err := send.WriteMessage(websocket.MessageType(m.Typ), d); err != nil {
			perr = true
		}
	}
	lens := smem.takeLens()
	wire = smem.take()
	if c.Splice {
		// RFC 6455 5.4 allows control frames in the middle of a fragmented message (the library's sender never does it,
		// another implementation may): a ping is inserted behind every frame that is not the last of its message
		var w2 []byte
		off := 0
		for _, n := range lens {
			if off+n > len(wire) {
				break
			}
			fr := wire[off : off+n]
			w2 = append(w2, fr...)
			if n > 0 && fr[0]&0x80 == 0 {
				w2 = append(w2, encodeFrame(true, 0, 9, []byte("sp"), c.Client, rnd)...)
			}
			off += n
		}
		w2 = append(w2, wire[off:]...)
		wire = w2
	}
	if c.Focus == "C12" && !c.Splice {
		fs, ok := decodeFrames(wire)
		for _, f := range fs {
			tr.Emit(hlib.Ev{"ev": "frame", "fin": f.fin, "rsv1": f.rsv1, "rsv2": f.rsv2, "rsv3": f.rsv3, "opcode": f.op,
				"masked": f.masked, "len": len(f.payload), "lenminimal": f.minimal})
		}
		if !ok {
			perr = true
		}
	}
	if err := feed(recv, wire, c.Cut, rnd, nil); err != nil {
		perr = true
	}
	tr.Emit(hlib.Ev{"ev": "end", "err": perr, "delivered": recvd})
	send.CloseAndClean(nil)
	recv.CloseAndClean(nil)
}

// ---- C13 ----
func payloadOf(f frameSpec) []byte {
	n := f.Len
	b := bytes.Repeat([]byte{'a'}, n)
	switch {
	case f.Pl == "bad":
		b = bytes.Repeat([]byte{0xff}, n)
	case f.Pl == "head" && n >= 1:
		b[n-1] = 0xC3
	case f.Pl == "tail" && n >= 1:
		b[0] = 0xA9
	case f.Pl == "c1":
		b = []byte{0x03}
	case f.Pl == "cbad" && n >= 2:
		binary.BigEndian.PutUint16(b, 1000)
		for i := 2; i < n; i++ {
			b[i] = 0xff
		}
	case len(f.Pl) > 1 && f.Pl[0] == 'c' && n >= 2:
		var code int
		fmt.Sscanf(f.Pl[1:], "%d", &code)
		binary.BigEndian.PutUint16(b, uint16(code))
		for i := 2; i < n; i++ {
			b[i] = 'r'
		}
	}
	return b
}

func runC13(c *tcase, trk *tracker) {
	rnd := rand.New(rand.NewSource(c.Seed))
	var delivered []interface{}
	recv, rmem, _ := mkConn(c, trk, c.Client, 0, func(t websocket.MessageType, d []byte) {
		delivered = append(delivered, []interface{}{int(t), len(d)})
	})
	closedCb := false
	recv.OnClose(func(*websocket.Conn, error) { closedCb = true })
	var wire []byte
	var pings [][]byte
	for _, f := range c.Frames {
		p := payloadOf(f)
		if f.Op == 9 {
			pings = append(pings, p)
		}
		wire = append(wire, encodeFrameEnc(f.Fin, f.Rsv, f.Op, p, !c.Client, rnd, f.Enc)...) // frames TO a server are masked
	}
	tr.Emit(hlib.Ev{"ev": "expect", "delivered": c.Expect["delivered"], "pongs": c.Expect["pongs"], "closereply": c.Expect["closereply"],
		"failed": c.Expect["failed"], "closed": c.Expect["closed"], "mayfail": c.Expect["mayfail"]})
	err := feed(recv, wire, c.Cut, rnd, nil)
	replies, _ := decodeFrames(rmem.take())
	var pongs []interface{}
	pongok := true
	closereply := false
	pi := 0
	for _, f := range replies {
		switch f.op {
		case 10:
			pongs = append(pongs, len(f.payload))
			if pi >= len(pings) || !bytes.Equal(pings[pi], f.payload) {
				pongok = false
			}
			pi++
		case 8:
			closereply = true
		}
	}
	if delivered == nil {
		delivered = []interface{}{}
	}
	if pongs == nil {
		pongs = []interface{}{}
	}
	tr.Emit(hlib.Ev{"ev": "obs", "delivered": delivered, "pongs": pongs, "pongok": pongok, "closereply": closereply,
		"closed": rmem.isClosed() || closedCb, "err": err != nil})
	recv.CloseAndClean(nil)
}

// ---- C15 ----
// deflateFinal ends the stream with a BFINAL block (flate.Writer.Close) instead of a sync flush: RFC 7692 7.2.3.5 allows it
func deflateFinal(b []byte) []byte {
	var buf bytes.Buffer
	w, _ := flate.NewWriter(&buf, 6)
	w.Write(b)
	w.Close()
	return buf.Bytes()
}

func deflateRaw(b []byte) []byte {
	var buf bytes.Buffer
	w, _ := flate.NewWriter(&buf, 6)
	w.Write(b)
	w.Flush()
	out := buf.Bytes()
	// RFC 7692: strip the 00 00 ff ff tail
	if len(out) >= 4 {
		out = out[:len(out)-4]
	}
	return out
}

func runC15(c *tcase, trk *tracker) {
	rnd := rand.New(rand.NewSource(c.Seed))
	tr.Emit(hlib.Ev{"ev": "limitinfo", "limit": c.Limit})
	delivered := 0
	recv, rmem, _ := mkConn(c, trk, false, c.Limit, func(t websocket.MessageType, d []byte) {
		delivered++
		tr.Emit(hlib.Ev{"ev": "deliver", "len": len(d)})
	})
	switch c.Kind {
	case "ctlsend":
		for _, n := range []int{0, 1, 125, 126, 200} {
			for _, t := range []websocket.MessageType{websocket.PingMessage, websocket.PongMessage, websocket.CloseMessage} {
				p := make([]byte, n)
				if t == websocket.CloseMessage && n >= 2 {
					binary.BigEndian.PutUint16(p, 1000)
				}
				c2 := *c
				snd, _, _ := mkConn(&c2, trk, true, 0, func(websocket.MessageType, []byte) {})
				err := snd.WriteMessage(t, p)
				tr.Emit(hlib.Ev{"ev": "ctlsend", "len": n, "err": err != nil, "typ": int(t)})
				snd.CloseAndClean(nil)
			}
		}
		recv.CloseAndClean(nil)
		return
	case "readlimit":
		// an incomplete frame dripped in: buffered unparsed input must stay within the read limit
		p := bytes.Repeat([]byte{'x'}, c.ReadLim*4)
		wire := encodeFrame(true, 0, 2, p, true, rnd)
		if c.Inflate > 0 {
			// the header declares a frame of c.Inflate bytes, only the first 2 x read limit bytes ever arrive
			wire = encodeFrame(true, 0, 2, make([]byte, c.Inflate), true, rnd)[:c.ReadLim*2]
		}
		trk.mu.Lock()
		trk.peak = trk.live
		base0 := trk.live
		trk.mu.Unlock()
		defer func() {
			trk.mu.Lock()
			pk := trk.peak - base0
			trk.mu.Unlock()
			// what is reserved for unparsed input stays in the order of the read limit, whatever the header declares
			tr.Emit(hlib.Ev{"ev": "retained", "n": pk, "readlimit": 4*c.ReadLim + 4096, "lastread": 0, "peak": true})
		}()
		last := 0
		_ = feed(recv, wire, c.Cut, rnd, func(n int) {
			last = n
			tr.Emit(hlib.Ev{"ev": "retained", "n": websocket.VerifCached(recv), "readlimit": c.ReadLim, "lastread": last})
		})
		recv.CloseAndClean(nil)
		return
	}
	total := 0
	var wire []byte
	if c.Kind == "ctlrecv" {
		f := c.Frames[0]
		total = f.Len
		wire = encodeFrameEnc(true, 0, f.Op, bytes.Repeat([]byte{'p'}, f.Len), true, rnd, f.Enc)
	} else if c.Kind == "inflate" {
		raw := content("comp", c.Inflate, rnd, true)
		total = len(raw)
		z := deflateRaw(raw)
		if c.Final {
			z = deflateFinal(raw)
		}
		wire = encodeFrame(true, 4, 1, z, true, rnd) // RSV1 = bit value 4 in the 3-bit field
	} else if c.Kind == "zwire" {
		// compressed data whose WIRE size alone exceeds the limit (empty stored blocks inflate to nothing): refused like any
		// other oversize message, as one frame or as fragments of a compressed message
		var z []byte
		for len(z) <= c.Inflate {
			z = append(z, 0x00, 0x00, 0x00, 0xff, 0xff)
		}
		total = len(z)
		if len(c.Frag) > 1 {
			per := len(z)/len(c.Frag) + 1
			for i := 0; len(z) > 0; i++ {
				n := per
				if n > len(z) {
					n = len(z)
				}
				rsv, op := 0, 0
				if i == 0 {
					rsv, op = 4, 2
				}
				wire = append(wire, encodeFrame(n == len(z), rsv, op, z[:n], true, rnd)...)
				z = z[n:]
			}
		} else {
			wire = encodeFrame(true, 4, 2, z, true, rnd)
		}
	} else {
		op := 2
		for i, n := range c.Frag {
			total += n
			if i > 0 && c.Kind == "fragping" {
				wire = append(wire, encodeFrame(true, 0, 9, []byte("hi"), true, rnd)...)
			}
			wire = append(wire, encodeFrame(i == len(c.Frag)-1, 0, op, bytes.Repeat([]byte{'z'}, n), true, rnd)...)
			op = 0
		}
	}
	trk.mu.Lock()
	trk.peak = trk.live
	base := trk.live
	trk.mu.Unlock()
	err := feed(recv, wire, c.Cut, rnd, nil)
	replies, _ := decodeFrames(rmem.take())
	code1009 := false
	for _, f := range replies {
		if f.op == 8 && len(f.payload) >= 2 && binary.BigEndian.Uint16(f.payload) == 1009 {
			code1009 = true
		}
	}
	trk.mu.Lock()
	peak := trk.peak - base
	trk.mu.Unlock()
	// slack: the wire bytes themselves are buffered (one frame / the input cache), a growing buffer exists twice
	// while it is copied (old + new, each at most the limit + 1), + a constant
	tr.Emit(hlib.Ev{"ev": "result", "oversize": total > c.Limit || c.Kind == "ctlrecv", "failed": err != nil || rmem.isClosed(), "code1009": code1009,
		"delivered": delivered, "peak": peak, "slack": c.Limit + 2*len(wire) + 4096, "total": total})
	recv.CloseAndClean(nil)
}

func main() {
	in := flag.String("cases", "", "")
	outp := flag.String("trace", "", "")
	flag.Parse()
	logging.SetLevel(logging.LevelNone)
	var err error
	tr, err = hlib.NewTrace(*outp)
	if err != nil {
		hlib.Fatal("%v", err)
	}
	_ = mempool.DefaultMemPool
	n := 0
	err = hlib.ReadLines(*in, func(b []byte) error {
		var c tcase
		if err := json.Unmarshal(b, &c); err != nil {
			return err
		}
		n++
		tr.Emit(hlib.Ev{"ev": "reset", "id": c.ID, "focus": c.Focus, "client": c.Client, "compress": c.Compress, "limit": c.Limit})
		trk := newTracker(c.Focus == "C11")
		func() {
			defer func() {
				if r := recover(); r != nil {
					tr.Emit(hlib.Ev{"ev": "panic", "msg": fmt.Sprint(r)})
				}
			}()
			switch c.Mode {
			case "C12":
				runC12(&c, trk)
			case "C13":
				runC13(&c, trk)
			case "C15":
				runC15(&c, trk)
			}
		}()
		if c.Focus == "C11" {
			tr.Emit(hlib.Ev{"ev": "aend", "poison": trk.poisonIntact()})
		}
		return nil
	})
	if err != nil {
		hlib.Fatal("%v", err)
	}
	tr.Close()
	fmt.Printf("{\"cases\": %d}\n", n)
	os.Exit(0)
}
