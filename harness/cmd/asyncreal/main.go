// Command asyncreal records timer.Timer.Async (the engine's asynchronous queue) under the Go
// scheduler: phases of small and large backlogs queued behind a blocked head function, panicking
// functions, functions that queue further functions.  Validated by TLC against SeqFifoMonTrace.
package main

import (
	"flag"
	"fmt"
	"os"
	"strconv"
	"strings"
	"sync"
	"time"

	"github.com/lesismal/nbio/logging"
	"github.com/lesismal/nbio/timer"

	"verifharness/hlib"
)

func main() {
	out := flag.String("trace", "", "")
	phases := flag.String("phases", "16,1500,16,16", "")
	reps := flag.Int("reps", 2, "")
	flag.Parse()
	logging.SetLevel(logging.LevelNone)
	tr, err := hlib.NewTrace(*out)
	if err != nil {
		hlib.Fatal("%v", err)
	}
	var sizes []int
	for _, p := range strings.Split(*phases, ",") {
		n, _ := strconv.Atoi(p)
		sizes = append(sizes, n)
	}
	total := 0
	for rep := 0; rep < *reps; rep++ {
		tm := timer.New("verif")
		tr.Emit(hlib.Ev{"ev": "reset", "id": fmt.Sprintf("async-real#%d", rep)})
		k := 0
		for pi, n := range sizes {
			var wg sync.WaitGroup
			gate := make(chan struct{})
			for i := 0; i < n; i++ {
				k++
				kk := k
				first := i == 0
				doPanic := i == n/2 && pi%2 == 0
				wg.Add(1)
				tr.Emit(hlib.Ev{"ev": "call", "k": kk})
				tm.Async(func() {
					tr.Emit(hlib.Ev{"ev": "start", "k": kk})
					if first {
						<-gate // the head blocks while the rest of the phase is queued behind it
					}
					tr.Emit(hlib.Ev{"ev": "end", "k": kk})
					wg.Done()
					if doPanic {
						panic("verif: async function panics")
					}
				})
			}
			close(gate)
			done := make(chan struct{})
			go func() { wg.Wait(); close(done) }()
			select {
			case <-done:
			case <-time.After(3 * time.Second):
			}
			time.Sleep(time.Millisecond) // let the drainer goroutine exit: the next phase starts a new one
			tr.Emit(hlib.Ev{"ev": "quiesce"})
			total += n
		}
	}
	if err := tr.Close(); err != nil {
		hlib.Fatal("%v", err)
	}
	fmt.Printf("{\"functions\": %d}\n", total)
	os.Exit(0)
}
