// Command deadline replays deadline histories generated from Deadline.tla on real connections in
// real time (C16) and records, on one monotonic clock, what was set and when the connection was
// closed with which error.  Legs: core (nbio.Conn Set*Deadline), http (keep-alive of idle HTTP
// connections, renewed by each request), ws (keep-alive of silent WebSocket connections, which is the
// Upgrader's, not the HTTP engine's).  Validated by TLC against DeadlineMonTrace.
package main

import (
	"bufio"
	"crypto/sha1"
	"encoding/base64"
	"encoding/json"
	"errors"
	"flag"
	"fmt"
	"io"
	"net"
	"net/http"
	"os"
	"strings"
	"sync"
	"sync/atomic"
	"time"

	"github.com/lesismal/nbio"
	"github.com/lesismal/nbio/logging"
	"github.com/lesismal/nbio/nbhttp"
	"github.com/lesismal/nbio/nbhttp/websocket"

	"verifharness/hlib"
)

type hop struct {
	T  int    `json:"t"`
	Op string `json:"op"`
	D  int    `json:"d"`
}

type hist struct {
	ID   string `json:"id"`
	Leg  string `json:"leg"`
	Mode string `json:"mode"`
	Ops  []hop  `json:"ops"`
	End  int    `json:"end"` // observe until this tick
}

var tr *hlib.Trace
var t0 = time.Now()

func us(t time.Time) int64 { return int64(t.Sub(t0) / time.Microsecond) }

func errKind(err error) string {
	switch {
	case err == nil:
		return "nil"
	case errors.Is(err, nbio.ErrReadTimeout):
		return "rtimeout"
	case errors.Is(err, nbio.ErrWriteTimeout):
		return "wtimeout"
	case errors.Is(err, io.EOF):
		return "eof"
	}
	return "other"
}

type rec struct {
	mu   sync.Mutex
	evs  []hlib.Ev
	cl   bool
	late bool
}

var lateHistories int32

// one shared (never modified) block for the big writes: allocating a MiB per operation makes the harness itself hiccup
var bigBuf = make([]byte, 1<<20)

// hiccups: moments at which this process was not scheduled for more than 8 ms (measured by a goroutine that sleeps 1 ms
// at a time).  A history during whose life such a pause happened is not judged: the timing of its events says nothing.
var (
	hicMu   sync.Mutex
	hiccups []time.Time
)

func heartbeat() {
	for {
		t0 := time.Now()
		time.Sleep(time.Millisecond)
		if d := time.Since(t0); d > lag/2 {
			hicMu.Lock()
			hiccups = append(hiccups, t0)
			hicMu.Unlock()
		}
	}
}

func hiccupBetween(a, b time.Time) bool {
	hicMu.Lock()
	defer hicMu.Unlock()
	for _, h := range hiccups {
		if !h.Before(a.Add(-10*time.Millisecond)) && !h.After(b) {
			return true
		}
	}
	return false
}

func (r *rec) add(e hlib.Ev) {
	if _, ok := e["ts"]; !ok {
		e["ts"] = us(time.Now())
	}
	r.mu.Lock()
	r.evs = append(r.evs, e)
	r.mu.Unlock()
}

var emitMu sync.Mutex
var lag = 20 * time.Millisecond

// emitBlock writes one scenario (reset + its events) atomically: scenarios run concurrently.
func emitBlock(id string, slack time.Duration, evs []hlib.Ev) {
	emitMu.Lock()
	defer emitMu.Unlock()
	tr.Emit(hlib.Ev{"ev": "reset", "id": id, "slack": int64(slack / time.Microsecond), "lag": int64(lag / time.Microsecond)})
	for _, e := range evs {
		tr.Emit(e)
	}
}

func runCore(hs []hist, unit time.Duration, slack time.Duration) {
	byMode := map[string][]hist{}
	for _, h := range hs {
		byMode[h.Mode] = append(byMode[h.Mode], h)
	}
	var wgAll sync.WaitGroup
	for mode, all := range byMode {
		mode, all := mode, all
		wgAll.Add(1)
		go func() {
			defer wgAll.Done()
			// at most 32 histories run at the same time per engine: the harness has to keep its own schedule
			for lo := 0; lo < len(all); lo += 32 {
				hi := lo + 32
				if hi > len(all) {
					hi = len(all)
				}
				runCoreBatch(mode, all[lo:hi], unit, slack)
			}
		}()
	}
	wgAll.Wait()
}

func runCoreBatch(mode string, list []hist, unit time.Duration, slack time.Duration) {
	{
		func() {
			cfg := nbio.Config{Network: "tcp", Addrs: []string{"127.0.0.1:0"}, NPoller: 2}
			switch mode {
			case "ET":
				cfg.EpollMod = nbio.EPOLLET
			case "OS":
				cfg.EpollMod = nbio.EPOLLET
				cfg.EPOLLONESHOT = nbio.EPOLLONESHOT
			}
			g := nbio.NewEngine(cfg)
			var mu sync.Mutex
			recs := map[*nbio.Conn]*rec{}
			opened := make(chan *nbio.Conn, len(list)+8)
			g.OnOpen(func(c *nbio.Conn) {
				mu.Lock()
				recs[c] = &rec{}
				mu.Unlock()
				opened <- c
			})
			g.OnData(func(c *nbio.Conn, d []byte) {})
			g.OnClose(func(c *nbio.Conn, err error) {
				at := us(time.Now())
				mu.Lock()
				r := recs[c]
				mu.Unlock()
				if r != nil {
					r.add(hlib.Ev{"ev": "onclose", "err": errKind(err), "at": at})
					r.mu.Lock()
					r.cl = true
					r.mu.Unlock()
				}
			})
			if err := g.Start(); err != nil {
				hlib.Fatal("start: %v", err)
			}
			var peers []net.Conn
			var conns []*nbio.Conn
			for range list {
				p, err := net.Dial("tcp", g.Addrs[0])
				if err != nil {
					hlib.Fatal("dial: %v", err)
				}
				peers = append(peers, p)
				stalled := false
				for _, o := range list[len(peers)-1].Ops {
					if o.Op == "bigwrite" {
						stalled = true // this history needs a backlog: its peer never reads
					}
				}
				if !stalled {
					go io.Copy(io.Discard, p) // the peer reads whatever is written: writes drain
				} else if tc, ok := p.(*net.TCPConn); ok {
					tc.SetReadBuffer(8192)
				}
				nc := <-opened
				if stalled {
					nc.SetWriteBuffer(8192)
				}
				conns = append(conns, nc)
			}
			var wg sync.WaitGroup
			for i, h := range list {
				i, h := i, h
				c := conns[i]
				mu.Lock()
				r := recs[c]
				mu.Unlock()
				wg.Add(1)
				go func() {
					defer wg.Done()
					start := time.Now()
					backlog := false
					for _, o := range h.Ops {
						planned := start.Add(time.Duration(o.T)*unit + unit/4)
						time.Sleep(time.Until(planned))
						now := time.Now()
						if now.Sub(planned) > unit/4 {
							// the harness itself is late (machine overloaded): deadlines would be set after earlier ones have
							// passed, the timing of this history says nothing about the library
							r.mu.Lock()
							r.late = true
							r.mu.Unlock()
						}
						dl := now.Add(time.Duration(o.D)*unit + unit/2) // expires mid-tick: >= unit/2 away from every operation
						if o.D == 0 && (o.Op == "setr" || o.Op == "setw" || o.Op == "setrw") {
							dl = now.Add(-unit / 2) // a deadline that is already past when it is set
						}
						switch o.Op {
						case "setr":
							r.add(hlib.Ev{"ev": "set", "kind": "r", "at": us(dl)})
							c.SetReadDeadline(dl)
						case "setw":
							r.add(hlib.Ev{"ev": "set", "kind": "w", "at": us(dl)})
							c.SetWriteDeadline(dl)
						case "setrw":
							r.add(hlib.Ev{"ev": "set", "kind": "r", "at": us(dl)})
							r.add(hlib.Ev{"ev": "set", "kind": "w", "at": us(dl)})
							c.SetDeadline(dl)
						case "clearr":
							c.SetReadDeadline(time.Time{})
							r.add(hlib.Ev{"ev": "clear", "kind": "r"})
						case "clearw":
							c.SetWriteDeadline(time.Time{})
							r.add(hlib.Ev{"ev": "clear", "kind": "w"})
						case "clearrw":
							c.SetDeadline(time.Time{})
							r.add(hlib.Ev{"ev": "clear", "kind": "r"})
							r.add(hlib.Ev{"ev": "clear", "kind": "w"})
						case "write":
							if n, err := c.Write([]byte("ping")); err == nil && n == 4 && !backlog {
								// small write, nothing queued before it: taken completely, no backlog left
								r.add(hlib.Ev{"ev": "clear", "kind": "w"})
							}
						case "bigwrite":
							// the peer does not read: most of this stays queued in user space
							c.Write(bigBuf)
							backlog = true
						case "close":
							r.add(hlib.Ev{"ev": "closeop"})
							c.Close()
						}
					}
					time.Sleep(time.Until(start.Add(time.Duration(h.End)*unit + slack + 100*time.Millisecond)))
					r.mu.Lock()
					if hiccupBetween(start, start.Add(time.Duration(h.End)*unit+unit)) {
						r.late = true
					}
					cl := r.cl
					r.mu.Unlock()
					r.add(hlib.Ev{"ev": "end", "at": us(time.Now()), "closed": cl})
				}()
			}
			wg.Wait()
			for i, h := range list {
				mu.Lock()
				r := recs[conns[i]]
				mu.Unlock()
				r.mu.Lock()
				if r.late {
					atomic.AddInt32(&lateHistories, 1)
					emitBlock(h.ID, slack, []hlib.Ev{{"ev": "harnesslate"}})
				} else {
					emitBlock(h.ID, slack, r.evs)
				}
				r.mu.Unlock()
			}
			for _, p := range peers {
				p.Close()
			}
			done := make(chan struct{})
			go func() { g.Stop(); close(done) }()
			select {
			case <-done:
			case <-time.After(10 * time.Second):
			}
		}()
	}
}

// ---- keep-alive legs: the observer is a raw client that notes when the server closes ----
func runKeepalive(id string, ws bool, ping bool, iomod int, httpKA, wsKA time.Duration, requests int, gap time.Duration, slack time.Duration) {
	mux := &http.ServeMux{}
	mux.HandleFunc("/", func(w http.ResponseWriter, r *http.Request) { w.Write([]byte("ok")) })
	u := websocket.NewUpgrader()
	u.KeepaliveTime = wsKA
	u.OnMessage(func(c *websocket.Conn, t websocket.MessageType, d []byte) { c.WriteMessage(t, d) })
	mux.HandleFunc("/ws", func(w http.ResponseWriter, r *http.Request) {
		if _, err := u.Upgrade(w, r, nil); err != nil {
			return
		}
	})
	e := nbhttp.NewEngine(nbhttp.Config{Network: "tcp", Addrs: []string{"127.0.0.1:0"}, Handler: mux, KeepaliveTime: httpKA, IOMod: iomod, NPoller: 1})
	if err := e.Start(); err != nil {
		hlib.Fatal("http start: %v", err)
	}
	defer e.Stop()
	c, err := net.Dial("tcp", e.Addrs[0])
	if err != nil {
		hlib.Fatal("dial: %v", err)
	}
	defer c.Close()
	br := bufio.NewReader(c)
	var evs []hlib.Ev
	defer func() { emitBlock(id, slack, evs) }()
	ka := httpKA
	var last time.Time
	if ws {
		key := base64.StdEncoding.EncodeToString([]byte("0123456789abcdef"))
		fmt.Fprintf(c, "GET /ws HTTP/1.1\r\nHost: x\r\nUpgrade: websocket\r\nConnection: Upgrade\r\nSec-WebSocket-Key: %s\r\nSec-WebSocket-Version: 13\r\n\r\n", key)
		last = time.Now()
		resp, err := http.ReadResponse(br, nil)
		if err != nil || resp.StatusCode != 101 {
			hlib.Fatal("ws handshake failed: %v", err)
		}
		_ = sha1.New
		ka = wsKA
		for i := 0; i < requests; i++ {
			time.Sleep(gap)
			// masked text frame "hi" (echoed), or a masked ping "hi" (answered by a pong): both are activity
			op := byte(0x81)
			if ping {
				op = 0x89
			}
			c.Write([]byte{op, 0x82, 1, 2, 3, 4, 'h' ^ 1, 'i' ^ 2})
			last = time.Now()
			buf := make([]byte, 4)
			io.ReadFull(br, buf)
		}
	} else {
		for i := 0; i < requests; i++ {
			if i > 0 {
				time.Sleep(gap)
			}
			fmt.Fprintf(c, "GET / HTTP/1.1\r\nHost: x\r\n\r\n")
			last = time.Now()
			resp, err := http.ReadResponse(br, nil)
			if err != nil {
				hlib.Fatal("http response: %v", err)
			}
			io.Copy(io.Discard, resp.Body)
		}
	}
	// the deadline stands at (last activity seen by the server) + keep-alive; the client-side time of the last
	// write is a lower bound of it, so "never early" is sound; lateness is covered by the slack
	if ka > 0 {
		evs = append(evs, hlib.Ev{"ev": "set", "kind": "r", "at": us(last.Add(ka)), "ts": us(last)})
	}
	wait := ka + slack + 300*time.Millisecond
	if ka == 0 {
		wait = httpKA + slack + 300*time.Millisecond // must survive the HTTP keep-alive time
	}
	c.SetReadDeadline(time.Now().Add(wait))
	one := make([]byte, 64)
	closed := false
	for {
		_, err := br.Read(one)
		if err != nil {
			var ne net.Error
			if errors.As(err, &ne) && ne.Timeout() {
				break
			}
			closed = true
			break
		}
	}
	at := us(time.Now())
	if closed {
		evs = append(evs, hlib.Ev{"ev": "onclose", "err": "rtimeout", "at": at})
	}
	evs = append(evs, hlib.Ev{"ev": "end", "at": at, "closed": closed})
}

func main() {
	in := flag.String("histories", "", "")
	out := flag.String("trace", "", "")
	unitMs := flag.Int("unit", 60, "")
	slackMs := flag.Int("slack", 500, "")
	ka := flag.Bool("keepalive", true, "")
	flag.Parse()
	// the allowance for the asynchronous delivery of the close notification scales with the tick: a third of it
	lag = time.Duration(*unitMs) * time.Millisecond / 3
	logging.SetLevel(logging.LevelNone)
	var err error
	tr, err = hlib.NewTrace(*out)
	if err != nil {
		hlib.Fatal("%v", err)
	}
	var hs []hist
	err = hlib.ReadLines(*in, func(b []byte) error {
		var h hist
		if err := json.Unmarshal(b, &h); err != nil {
			return err
		}
		hs = append(hs, h)
		return nil
	})
	if err != nil {
		hlib.Fatal("%v", err)
	}
	unit := time.Duration(*unitMs) * time.Millisecond
	slack := time.Duration(*slackMs) * time.Millisecond
	var wg sync.WaitGroup
	wg.Add(1)
	go func() { defer wg.Done(); runCore(hs, unit, slack) }()
	n := len(hs)
	go heartbeat()
	if *ka {
		type kcase struct {
			id           string
			ws           bool
			ping         bool
			iomod        int
			httpKA, wsKA time.Duration
			req          int
		}
		var cases []kcase
		for _, iom := range []int{nbhttp.IOModNonBlocking, nbhttp.IOModBlocking} {
			name := map[int]string{nbhttp.IOModNonBlocking: "nonblocking", nbhttp.IOModBlocking: "blocking"}[iom]
			cases = append(cases,
				kcase{"http-keepalive-" + name + "-1req", false, false, iom, 400 * time.Millisecond, 0, 1},
				kcase{"http-keepalive-" + name + "-3req", false, false, iom, 400 * time.Millisecond, 0, 3},
				kcase{"ws-keepalive-longer-" + name, true, false, iom, 300 * time.Millisecond, 900 * time.Millisecond, 1},
				kcase{"ws-keepalive-shorter-" + name, true, false, iom, 900 * time.Millisecond, 300 * time.Millisecond, 2},
				kcase{"ws-keepalive-off-" + name, true, false, iom, 300 * time.Millisecond, 0, 0},
				// a peer that keeps the connection alive with pings only: 5 pings, 150 ms apart, keep-alive 400 ms
				kcase{"ws-keepalive-pings-" + name, true, true, iom, 900 * time.Millisecond, 400 * time.Millisecond, 5},
			)
		}
		for _, k := range cases {
			k := k
			n++
			wg.Add(1)
			go func() {
				defer wg.Done()
				runKeepalive(k.id, k.ws, k.ping, k.iomod, k.httpKA, k.wsKA, k.req, 150*time.Millisecond, slack)
			}()
		}
	}
	wg.Wait()
	tr.Close()
	fmt.Printf("{\"histories\": %d, \"late\": %d}\n", n, atomic.LoadInt32(&lateHistories))
	_ = strings.TrimSpace
	os.Exit(0)
}
