// Command inbound is the real-kernel matrix leg (direction V) of C02: for every requested engine
// configuration {LT, ET, ET+ONESHOT} x {sync, async read} x {default, custom IOExecute} x NPoller x
// ReadBufferSize x MaxConnReadTimesPerEventLoop x {tcp, unix, udp} peers send self-describing bursts
// (pauses, half-close; UDP: echo-paced datagrams from several remotes), the data callback's view is
// recorded, and after the traffic the process CPU is measured over an idle window.  Validated by TLC
// against InboundMonTrace.
package main

import (
	"encoding/binary"
	"encoding/json"
	"flag"
	"fmt"
	"math/rand"
	"net"
	"os"
	"path/filepath"
	"sync"
	"sync/atomic"
	"syscall"
	"time"

	"github.com/lesismal/nbio"
	"github.com/lesismal/nbio/logging"

	"verifharness/hlib"
)

type scen struct {
	ID          string `json:"id"`
	Mode        string `json:"mode"`
	Async       bool   `json:"async"`
	Exec        string `json:"exec"` // default | custom
	NPoller     int    `json:"npoller"`
	RBuf        int    `json:"rbuf"`
	MaxRead     int    `json:"maxread"`
	Transport   string `json:"transport"`
	Seed        int64  `json:"seed"`
	Conns       int    `json:"conns"`
	IdleMs      int    `json:"idle_ms"`
	Slow        bool   `json:"slow"`        // slow data callback (readiness events arrive while a read task runs)
	Pending     bool   `json:"pending"`     // the peer half-closes / closes while input is still unread
	WriteDuring bool   `json:"writeduring"` // while a slow data callback runs (more input pending) another goroutine Writes a
	// block that leaves a backlog: the writing side re-arms the descriptor during the read
	Backlog bool `json:"backlog"` // the server first writes more than the socket takes: the poller handles pure writing
	// events (flushes that end on EAGAIN) while the peer is silent, then the peer sends
}

var tr *hlib.Trace
var tmpdir string
var udpMu sync.Mutex
var udpSocks []net.Conn

func pbyte(sid, off int) byte {
	if off < 4 {
		var b [4]byte
		binary.BigEndian.PutUint32(b[:], uint32(sid))
		return b[off]
	}
	x := uint64(sid)*0x9E3779B97F4A7C15 + uint64(off)*0xBF58476D1CE4E5B9
	x ^= x >> 29
	return byte(x >> 13)
}

type sess struct {
	mu  sync.Mutex
	sid int
	off int
	hdr []byte
	inH int32 // handlers running (overlap detection)
	wd  int32 // writeduring: the slow callback with the concurrent Write happened
}

func cpuNow() time.Duration {
	var ru syscall.Rusage
	syscall.Getrusage(syscall.RUSAGE_SELF, &ru)
	return time.Duration(ru.Utime.Nano() + ru.Stime.Nano())
}

func run(s scen) (bytes int64) {
	rnd := rand.New(rand.NewSource(s.Seed))
	cfg := nbio.Config{NPoller: s.NPoller, ReadBufferSize: s.RBuf, MaxConnReadTimesPerEventLoop: s.MaxRead, AsyncReadInPoller: s.Async}
	switch s.Mode {
	case "ET":
		cfg.EpollMod = nbio.EPOLLET
	case "OS":
		cfg.EpollMod = nbio.EPOLLET
		cfg.EPOLLONESHOT = nbio.EPOLLONESHOT
	}
	if s.Exec == "custom" {
		cfg.IOExecute = func(f func(*[]byte)) {
			go func() {
				buf := make([]byte, s.RBuf)
				f(&buf)
			}()
		}
	}
	network, addr := s.Transport, "127.0.0.1:0"
	if s.Transport == "unix" {
		addr = filepath.Join(tmpdir, fmt.Sprintf("i%d.sock", rnd.Int63()))
	}
	cfg.Network, cfg.Addrs = network, []string{addr}
	g := nbio.NewEngine(cfg)
	var emu sync.Mutex
	var evs []hlib.Ev
	emit := func(e hlib.Ev) { emu.Lock(); evs = append(evs, e); emu.Unlock() }
	var overlaps, slowCnt int32
	var deliveredBy sync.Map // stream id -> *int64
	connIDs := sync.Map{}
	var nextConn int32
	g.OnOpen(func(c *nbio.Conn) {
		c.SetSession(&sess{sid: -1})
		if s.Backlog && s.Transport != "udp" {
			c.Write(make([]byte, 6<<20))
		}
	})
	g.OnData(func(c *nbio.Conn, data []byte) {
		ss, _ := c.Session().(*sess)
		if ss == nil {
			ss = &sess{sid: -1}
			c.SetSession(ss)
		}
		if atomic.AddInt32(&ss.inH, 1) > 1 {
			atomic.AddInt32(&overlaps, 1)
		}
		defer atomic.AddInt32(&ss.inH, -1)
		if s.WriteDuring && s.Transport != "udp" && len(data) == s.RBuf && atomic.CompareAndSwapInt32(&ss.wd, 0, 1) {
			go func() {
				time.Sleep(30 * time.Millisecond)
				c.Write(make([]byte, 16<<20)) // the peer does not read it: a backlog, the descriptor is re-armed for writing
			}()
			time.Sleep(150 * time.Millisecond)
		}
		if s.Transport == "udp" {
			// datagram: [remote id:4][seq:4][pattern...]
			id, _ := connIDs.LoadOrStore(c, int(atomic.AddInt32(&nextConn, 1)))
			ok := len(data) >= 8
			remote, seq := -1, -1
			if ok {
				remote = int(binary.BigEndian.Uint32(data[:4]))
				seq = int(binary.BigEndian.Uint32(data[4:8]))
				for i := 8; i < len(data); i++ {
					if data[i] != pbyte(remote*1000+seq, i) {
						ok = false
						break
					}
				}
			}
			emit(hlib.Ev{"ev": "dgram", "conn": id.(int), "remote": remote, "seq": seq, "len": len(data), "ok": ok})
			if s.Slow {
				time.Sleep(time.Millisecond) // later datagrams of the burst arrive while this callback runs
			}
			// the sender is paced through this counter (an echo would itself wake the poller up)
			if remote >= 0 {
				p, _ := deliveredBy.LoadOrStore(100000+remote, new(int64))
				atomic.AddInt64(p.(*int64), 1)
			}
			return
		}
		ss.mu.Lock()
		d := data
		for ss.sid < 0 && len(d) > 0 {
			ss.hdr = append(ss.hdr, d[0])
			d = d[1:]
			if len(ss.hdr) == 4 {
				ss.sid = int(binary.BigEndian.Uint32(ss.hdr))
				ss.off = 4
			}
		}
		if ss.sid >= 0 && len(d) > 0 {
			ok := true
			for i, b := range d {
				if b != pbyte(ss.sid, ss.off+i) {
					ok = false
					break
				}
			}
			emit(hlib.Ev{"ev": "data", "c": ss.sid, "lo": ss.off, "hi": ss.off + len(d), "ok": ok})
			ss.off += len(d)
			p, _ := deliveredBy.LoadOrStore(ss.sid, new(int64))
			atomic.StoreInt64(p.(*int64), int64(ss.off))
		}
		ss.mu.Unlock()
		if s.Slow && atomic.AddInt32(&slowCnt, 1)%4 == 0 {
			time.Sleep(300 * time.Microsecond)
		}
	})
	if err := g.Start(); err != nil {
		hlib.Fatal("start %s: %v", s.ID, err)
	}
	var wg sync.WaitGroup
	if s.Transport == "udp" {
		var seqMu sync.Mutex
		for r := 0; r < 3; r++ {
			r := r
			wg.Add(1)
			go func() {
				defer wg.Done()
				if s.Slow {
					// one remote at a time: nobody else's traffic wakes the reader up
					seqMu.Lock()
					defer seqMu.Unlock()
				}
				c, err := net.Dial("udp", g.Addrs[0])
				if err != nil {
					return
				}
				// the socket stays open until the scenario is over: a remote that starts later must not get the same
				// source port from the kernel (it would rightly be the same logical connection for the engine)
				udpMu.Lock()
				udpSocks = append(udpSocks, c)
				udpMu.Unlock()
				rr := rand.New(rand.NewSource(s.Seed + int64(r)))
				seq := 0
				for round := 0; round < 6; round++ {
					// a burst of 1-3 datagrams back to back (well within the socket buffer), then their echoes
					burst := 1 + rr.Intn(5)
					sizes := []int{30000, 1400, 100, 9000, 1, 0}
					rr.Shuffle(len(sizes), func(i, j int) { sizes[i], sizes[j] = sizes[j], sizes[i] })
					for k := 0; k < burst; k++ {
						n := 8 + sizes[k]
						if n > s.RBuf {
							n = s.RBuf // a datagram larger than the read buffer is truncated by the kernel: outside the claim
						}
						if n < 8 {
							n = 8
						}
						b := make([]byte, n)
						binary.BigEndian.PutUint32(b[:4], uint32(r))
						binary.BigEndian.PutUint32(b[4:8], uint32(seq))
						for i := 8; i < n; i++ {
							b[i] = pbyte(r*1000+seq, i)
						}
						emit(hlib.Ev{"ev": "sentd", "remote": r, "seq": seq, "len": n})
						c.Write(b)
						seq++
						atomic.AddInt64(&bytes, int64(n))
					}
					dl := time.Now().Add(2 * time.Second)
					for {
						if p, ok := deliveredBy.Load(100000 + r); ok && atomic.LoadInt64(p.(*int64)) >= int64(seq) {
							break
						}
						if time.Now().After(dl) {
							// not delivered within 2 s although nothing else is going on for this socket
							emit(hlib.Ev{"ev": "stranded", "remote": r, "upto": seq})
							return
						}
						time.Sleep(200 * time.Microsecond)
					}
				}
			}()
		}
	} else {
		for ci := 0; ci < s.Conns; ci++ {
			ci := ci
			wg.Add(1)
			go func() {
				defer wg.Done()
				c, err := net.Dial(network, g.Addrs[0])
				if err != nil {
					hlib.Fatal("dial: %v", err)
				}
				defer c.Close()
				if s.Backlog {
					// drain the server's block slowly (every read makes room: a writing event on the server) and stay silent
					// for a while; the bursts follow while the rest is still draining
					go func() {
						buf := make([]byte, 128<<10)
						for {
							if _, err := c.Read(buf); err != nil {
								return
							}
							time.Sleep(2 * time.Millisecond)
						}
					}()
					time.Sleep(150 * time.Millisecond)
				}
				rr := rand.New(rand.NewSource(s.Seed + int64(ci)*7))
				sid := ci + 1
				off := 0
				bursts := []int{4 + rr.Intn(3), 1, s.RBuf - 1, s.RBuf, s.RBuf + 1, 3 * s.RBuf, 1 + rr.Intn(200000), 70000, 2}
				rr.Shuffle(len(bursts), func(i, j int) { bursts[i], bursts[j] = bursts[j], bursts[i] })
				for _, n := range bursts {
					if n <= 0 {
						n = 1
					}
					b := make([]byte, n)
					for i := range b {
						b[i] = pbyte(sid, off+i)
					}
					if _, err := c.Write(b); err != nil {
						break
					}
					off += n
					if rr.Intn(2) == 0 {
						time.Sleep(time.Duration(rr.Intn(1500)) * time.Microsecond)
					}
				}
				emit(hlib.Ev{"ev": "sent", "c": sid, "n": off})
				atomic.AddInt64(&bytes, int64(off))
				if !s.Pending {
					// wait until the server has consumed everything before the connection is (half-)closed
					dl := time.Now().Add(5 * time.Second)
					for time.Now().Before(dl) {
						if p, ok := deliveredBy.Load(sid); ok && atomic.LoadInt64(p.(*int64)) >= int64(off) {
							break
						}
						time.Sleep(500 * time.Microsecond)
					}
				}
				// half-close where the transport has it
				if tc, ok := c.(*net.TCPConn); ok && rr.Intn(2) == 0 {
					tc.CloseWrite()
				}
				time.Sleep(30 * time.Millisecond)
			}()
		}
	}
	done := make(chan struct{})
	go func() {
		wg.Wait()
		udpMu.Lock()
		for _, c := range udpSocks {
			c.Close()
		}
		udpSocks = nil
		udpMu.Unlock()
		close(done)
	}()
	select {
	case <-done:
	case <-time.After(20 * time.Second):
	}
	// give an asynchronous reader a moment to finish, then measure the idle window
	time.Sleep(30 * time.Millisecond)
	c0 := cpuNow()
	t0 := time.Now()
	time.Sleep(time.Duration(s.IdleMs) * time.Millisecond)
	cpu := cpuNow() - c0
	pct := int(100 * cpu / time.Since(t0))
	emu.Lock()
	tr.Emit(hlib.Ev{"ev": "reset", "id": s.ID, "udp": s.Transport == "udp"})
	for _, e := range evs {
		tr.Emit(e)
	}
	tr.Emit(hlib.Ev{"ev": "idle", "cpu": pct, "overlaps": int(atomic.LoadInt32(&overlaps))})
	tr.Emit(hlib.Ev{"ev": "quiesce"})
	emu.Unlock()
	stopped := make(chan struct{})
	go func() { g.Stop(); close(stopped) }()
	select {
	case <-stopped:
	case <-time.After(5 * time.Second):
	}
	return bytes
}

func main() {
	out := flag.String("trace", "", "")
	scens := flag.String("scenarios", "", "")
	flag.Parse()
	logging.SetLevel(logging.LevelNone)
	var err error
	tr, err = hlib.NewTrace(*out)
	if err != nil {
		hlib.Fatal("%v", err)
	}
	tmpdir, _ = os.MkdirTemp("", "inbound")
	defer os.RemoveAll(tmpdir)
	var list []scen
	b, err := os.ReadFile(*scens)
	if err != nil {
		hlib.Fatal("%v", err)
	}
	if err := json.Unmarshal(b, &list); err != nil {
		hlib.Fatal("%v", err)
	}
	var total int64
	for _, s := range list {
		total += run(s)
	}
	tr.Close()
	os.RemoveAll(tmpdir)
	fmt.Printf("{\"engines\": %d, \"bytes\": %d}\n", len(list), total)
	os.Exit(0)
}
