// Command httpresp executes handler programs generated from HttpResponse.tla on the real
// nbhttp.Response (obtained through the real Parser / ServerProcessor over an in-memory connection),
// decodes the bytes put on the connection with net/http's client-side parser, and records the
// observations for TLC (RespMonTrace): C09 response framing, and -- through an ownership-tracking
// allocator installed at the public seam mempool.DefaultMemPool -- C11 buffer ownership.
package main

import (
	"bufio"
	"bytes"
	"encoding/json"
	"flag"
	"fmt"
	"io"
	"net"
	"net/http"
	"os"
	"strings"
	"sync"
	"time"

	"github.com/lesismal/nbio/logging"
	"github.com/lesismal/nbio/mempool"
	"github.com/lesismal/nbio/nbhttp"

	"verifharness/hlib"
)

type op struct {
	K string `json:"k"`
	N int    `json:"n"`
}

type prog struct {
	ID     string                 `json:"id"`
	Focus  string                 `json:"focus"`
	Proto  string                 `json:"proto"` // "1.1" | "1.0"
	Conn   string                 `json:"conn"`  // "" | "close" | "keep-alive"
	Ops    []op                   `json:"ops"`
	Intent map[string]interface{} `json:"intent"`
	Fail   int                    `json:"fail"` // C11: the k-th conn.Write fails (0 = none)
}

type memConn struct {
	w      bytes.Buffer
	closed bool
	writes int
	failAt int
}

func (c *memConn) Read(b []byte) (int, error) { return 0, io.EOF }
func (c *memConn) Write(b []byte) (int, error) {
	c.writes++
	if c.failAt > 0 && c.writes >= c.failAt {
		return 0, io.ErrClosedPipe
	}
	return c.w.Write(b)
}
func (c *memConn) Close() error                       { c.closed = true; return nil }
func (c *memConn) LocalAddr() net.Addr                { return &net.TCPAddr{IP: net.IPv4(127, 0, 0, 1), Port: 1} }
func (c *memConn) RemoteAddr() net.Addr               { return &net.TCPAddr{IP: net.IPv4(127, 0, 0, 1), Port: 2} }
func (c *memConn) SetDeadline(t time.Time) error      { return nil }
func (c *memConn) SetReadDeadline(t time.Time) error  { return nil }
func (c *memConn) SetWriteDeadline(t time.Time) error { return nil }

// ---- ownership-tracking allocator ----
type tracker struct {
	mu    sync.Mutex
	ids   map[*[]byte]int
	freed map[*[]byte][]byte // the poisoned backing array as we left it
	next  int
	tr    *hlib.Trace
	on    bool
}

func (t *tracker) emit(opn string, id, id2 int) {
	if t.on {
		t.tr.Emit(hlib.Ev{"ev": "a", "op": opn, "id": id, "id2": id2})
	}
}

func (t *tracker) Malloc(size int) *[]byte {
	b := make([]byte, size)
	p := &b
	t.mu.Lock()
	t.next++
	t.ids[p] = t.next
	t.emit("malloc", t.next, t.next)
	t.mu.Unlock()
	return p
}

func (t *tracker) use(opn string, p *[]byte) (int, bool) {
	id, ok := t.ids[p]
	if !ok {
		return 0, false
	}
	t.emit(opn, id, id)
	return id, true
}

func (t *tracker) Realloc(p *[]byte, size int) *[]byte {
	t.mu.Lock()
	defer t.mu.Unlock()
	t.use("realloc", p)
	if size <= cap(*p) {
		*p = (*p)[:size]
		return p
	}
	nb := make([]byte, size)
	copy(nb, *p)
	*p = nb
	return p
}

func (t *tracker) Append(p *[]byte, more ...byte) *[]byte {
	t.mu.Lock()
	defer t.mu.Unlock()
	t.use("append", p)
	*p = append(*p, more...)
	return p
}

func (t *tracker) AppendString(p *[]byte, more string) *[]byte {
	t.mu.Lock()
	defer t.mu.Unlock()
	t.use("appendstr", p)
	*p = append(*p, more...)
	return p
}

func (t *tracker) Free(p *[]byte) {
	if p == nil {
		return
	}
	t.mu.Lock()
	defer t.mu.Unlock()
	if _, ok := t.use("free", p); !ok {
		return
	}
	full := (*p)[:cap(*p)]
	for i := range full {
		full[i] = 0xDD
	}
	t.freed[p] = full
}

func (t *tracker) poisonIntact() bool {
	t.mu.Lock()
	defer t.mu.Unlock()
	for _, full := range t.freed {
		for _, b := range full {
			if b != 0xDD {
				return false
			}
		}
	}
	return true
}

const pat = "abcdefghijklmnopqrstuvwxyzABCDEFGHIJKLMNOPQRSTUVWXYZ0123456789"

func body(off, n int) []byte {
	b := make([]byte, n)
	for i := range b {
		b[i] = pat[(off+i)%len(pat)]
	}
	return b
}

var tr *hlib.Trace

func errName(err error) string {
	if err == nil {
		return "nil"
	}
	return "error"
}

func runProg(p *prog) {
	ev := hlib.Ev{"ev": "reset", "id": p.ID, "focus": p.Focus, "proto10": p.Proto == "1.0", "intent": p.Intent}
	tr.Emit(ev)
	trk := &tracker{ids: map[*[]byte]int{}, freed: map[*[]byte][]byte{}, tr: tr, on: p.Focus == "C11"}
	old := mempool.DefaultMemPool
	mempool.DefaultMemPool = trk
	defer func() { mempool.DefaultMemPool = old }()
	conn := &memConn{failAt: p.Fail}
	off := 0
	handler := http.HandlerFunc(func(w http.ResponseWriter, r *http.Request) {
		for _, o := range p.Ops {
			switch o.K {
			case "cl":
				w.Header().Set("Content-Length", fmt.Sprint(o.N))
			case "te":
				w.Header().Set("Transfer-Encoding", "chunked")
			case "tr":
				w.Header().Set("Trailer", "X-Verif-Trailer")
			case "ct":
				w.Header().Set("Content-Type", "application/x-verif")
			case "xh":
				w.Header().Set("X-Custom", "v1")
			case "wh":
				w.WriteHeader(o.N)
			case "w", "wover":
				n, err := w.Write(body(off, o.N))
				if err == nil {
					off += o.N
				}
				tr.Emit(hlib.Ev{"ev": "op", "k": o.K, "n": o.N, "ret": n, "err": errName(err)})
			case "ws":
				n, err := io.WriteString(w, string(body(off, o.N)))
				if err == nil {
					off += o.N
				}
				tr.Emit(hlib.Ev{"ev": "op", "k": o.K, "n": o.N, "ret": n, "err": errName(err)})
			case "rf":
				n, err := w.(io.ReaderFrom).ReadFrom(bytes.NewReader(body(off, o.N)))
				if err == nil {
					off += o.N
				}
				tr.Emit(hlib.Ev{"ev": "op", "k": o.K, "n": o.N, "ret": int(n), "err": errName(err)})
			case "flush":
				w.(http.Flusher).Flush()
			case "trset":
				w.Header().Set("X-Verif-Trailer", "tv")
			}
		}
	})
	engine := nbhttp.NewEngine(nbhttp.Config{Handler: handler})
	parser := nbhttp.NewParser(conn, engine, nbhttp.NewServerProcessor(), false, nil)
	req := "GET /x HTTP/" + p.Proto + "\r\nHost: verif\r\n"
	if p.Conn != "" {
		req += "Connection: " + p.Conn + "\r\n"
	}
	req += "\r\n"
	func() {
		defer func() {
			if r := recover(); r != nil {
				tr.Emit(hlib.Ev{"ev": "panic", "msg": fmt.Sprint(r)})
			}
		}()
		_ = parser.Parse([]byte(req))
	}()
	parser.CloseAndClean(nil)
	if p.Focus == "C11" {
		tr.Emit(hlib.Ev{"ev": "aend", "poison": trk.poisonIntact()})
		return
	}
	// ---- decode the wire with net/http ----
	wire := conn.w.Bytes()
	rd := bytes.NewReader(wire)
	br := bufio.NewReader(rd)
	out := hlib.Ev{"ev": "wire", "parsed": false, "status": 0, "body": 0, "bodyok": false, "ct": false, "xh": false,
		"trailer": "none", "leftover": 0, "chunked": false, "hascl": false, "clval": -1, "second": false, "wirelen": len(wire)}
	resp, err := http.ReadResponse(br, &http.Request{Method: "GET"})
	if err == nil {
		b, berr := io.ReadAll(resp.Body)
		if berr == nil {
			out["parsed"] = true
			out["status"] = resp.StatusCode
			out["body"] = len(b)
			out["bodyok"] = bytes.Equal(b, body(0, len(b)))
			out["ct"] = resp.Header.Get("Content-Type") == "application/x-verif"
			out["xh"] = resp.Header.Get("X-Custom") == "v1"
			out["chunked"] = len(resp.TransferEncoding) > 0 && resp.TransferEncoding[0] == "chunked"
			// raw header inspection for Content-Length (net/http moves it into a field)
			head := string(wire)
			if i := strings.Index(head, "\r\n\r\n"); i >= 0 {
				head = head[:i]
			}
			for _, line := range strings.Split(head, "\r\n") {
				if strings.HasPrefix(strings.ToLower(line), "content-length:") {
					out["hascl"] = true
					var v int
					fmt.Sscanf(strings.TrimSpace(line[len("content-length:"):]), "%d", &v)
					out["clval"] = v
				}
			}
			if vs, ok := resp.Trailer["X-Verif-Trailer"]; ok {
				if len(vs) > 0 && vs[0] == "tv" {
					out["trailer"] = "set"
				} else {
					out["trailer"] = "empty"
				}
			}
			left := br.Buffered() + rd.Len()
			out["leftover"] = left
			if left > 0 {
				if _, err2 := http.ReadResponse(br, &http.Request{Method: "GET"}); err2 == nil {
					out["second"] = true
				}
			}
		}
	}
	tr.Emit(out)
}

func main() {
	in := flag.String("programs", "", "")
	outp := flag.String("trace", "", "")
	flag.Parse()
	logging.SetLevel(logging.LevelNone)
	var err error
	tr, err = hlib.NewTrace(*outp)
	if err != nil {
		hlib.Fatal("%v", err)
	}
	n := 0
	err = hlib.ReadLines(*in, func(b []byte) error {
		var p prog
		if err := json.Unmarshal(b, &p); err != nil {
			return err
		}
		runProg(&p)
		n++
		return nil
	})
	if err != nil {
		hlib.Fatal("%v", err)
	}
	tr.Close()
	fmt.Printf("{\"programs\": %d}\n", n)
	os.Exit(0)
}
