// Command wsq replays TLA+ behaviours of WsSend.tla on the real websocket.Conn under the cooperative
// scheduler (direction G): writer threads call WriteMessage concurrently on one Conn whose underlying
// net.Conn is an in-memory recorder; in the queued mode the library's drainer goroutines become managed
// threads (g1, g2, ...); a closer thread calls CloseAndClean.  The recorded byte stream is decoded with
// the harness' own frame codec and reported as wmsg / wbad / wsent events for WsOrderMonTrace.
package main

import (
	"bufio"
	"bytes"
	"encoding/json"
	"errors"
	"flag"
	"fmt"
	"net"
	"os"
	"strconv"
	"sync"
	"time"

	"github.com/lesismal/nbio/logging"
	"github.com/lesismal/nbio/nbhttp"
	"github.com/lesismal/nbio/nbhttp/websocket"
	"github.com/lesismal/nbio/zzverif/vrt"

	"verifharness/hlib"
)

type step struct {
	T string         `json:"t"`
	A string         `json:"a"`
	X map[string]int `json:"x"`
	// arrive only: the thread runs up to its next real yield point (the Lock of its critical section) and parks there
	// without being granted it: code the library executes before taking the lock runs early
	Arr bool `json:"arr"`
}

type script struct {
	ID      string           `json:"id"`
	Async   bool             `json:"async"`
	Close   bool             `json:"close"`
	Writers map[string][]int `json:"writers"` // frames per message
	Order   []string         `json:"order"`
	Steps   []step           `json:"steps"`
}

type summary struct {
	Scripts    int      `json:"scripts"`
	Steps      int      `json:"steps"`
	Drift      int      `json:"drift"`
	DriftAt    []string `json:"drift_at"`
	Stuck      int      `json:"stuck"`
	Interleave int      `json:"interleaved"`
}

const frameLimit = 32

// recorder is the underlying net.Conn: Write is a yield point and records what reaches the wire
type recorder struct {
	mu     sync.Mutex
	buf    bytes.Buffer
	closed bool
	writes int
}

func (r *recorder) Write(p []byte) (int, error) {
	vrt.Yield("write")
	r.mu.Lock()
	defer r.mu.Unlock()
	if r.closed {
		return 0, net.ErrClosed
	}
	r.writes++
	r.buf.Write(p)
	return len(p), nil
}
func (r *recorder) Read(p []byte) (int, error)         { return 0, errors.New("not readable") }
func (r *recorder) Close() error                       { r.mu.Lock(); r.closed = true; r.mu.Unlock(); return nil }
func (r *recorder) LocalAddr() net.Addr                { return &net.TCPAddr{} }
func (r *recorder) RemoteAddr() net.Addr               { return &net.TCPAddr{} }
func (r *recorder) SetDeadline(t time.Time) error      { return nil }
func (r *recorder) SetReadDeadline(t time.Time) error  { return nil }
func (r *recorder) SetWriteDeadline(t time.Time) error { return nil }

var tr *hlib.Trace

func main() {
	in := flag.String("scripts", "", "")
	out := flag.String("trace", "", "")
	flag.Parse()
	logging.SetLevel(logging.LevelNone)
	var err error
	tr, err = hlib.NewTrace(*out)
	if err != nil {
		hlib.Fatal("%v", err)
	}
	engine := nbhttp.NewEngine(nbhttp.Config{MaxWebsocketFramePayloadSize: frameLimit})
	var sum summary
	err = hlib.ReadLines(*in, func(b []byte) error {
		var sc script
		if err := json.Unmarshal(b, &sc); err != nil {
			return err
		}
		runScript(engine, &sc, &sum)
		return nil
	})
	if err != nil {
		hlib.Fatal("%v", err)
	}
	if err := tr.Close(); err != nil {
		hlib.Fatal("%v", err)
	}
	b, _ := json.Marshal(sum)
	fmt.Println(string(b))
	os.Exit(0)
}

func sizeFor(frames int) int { return frameLimit*(frames-1) + 20 }

func runScript(engine *nbhttp.Engine, sc *script, sum *summary) {
	sum.Scripts++
	tr.Emit(hlib.Ev{"ev": "reset", "id": sc.ID, "expectclose": false})
	s := vrt.New()
	s.Watchdog = 5 * time.Second
	vrt.Install(s)
	defer vrt.Install(nil)

	u := websocket.NewUpgrader()
	u.Engine = engine
	u.BlockingModAsyncCloseDelay = time.Millisecond
	var cbMu sync.Mutex
	nclose := 0
	u.OnClose(func(c *websocket.Conn, err error) {
		cbMu.Lock()
		nclose++
		cbMu.Unlock()
		tr.Emit(hlib.Ev{"ev": "closecb"})
	})
	rec := &recorder{}
	wsc := websocket.NewServerConn(u, rec, "", false, sc.Async)

	type wres struct{ ok, failed int }
	results := map[string]*wres{}
	for _, name := range sc.Order {
		name := name
		w, _ := strconv.Atoi(name[1:])
		msgs := sc.Writers[name]
		r := &wres{}
		results[name] = r
		s.Spawn(name, func() {
			for m, frames := range msgs {
				vrt.YieldT("op")
				err := wsc.WriteMessage(websocket.BinaryMessage, hlib.WsPayload(w, m, sizeFor(frames)))
				if err == nil {
					r.ok++
				} else {
					r.failed++
				}
				tr.Emit(hlib.Ev{"ev": "wret", "writer": w, "seq": m, "ok": err == nil})
			}
		})
	}
	if sc.Close {
		s.Spawn("closer", func() {
			vrt.YieldT("op")
			wsc.CloseAndClean(errors.New("verif: closed"))
		})
	}
	last := ""
	switches := 0
	stuck := false
	for i, st := range sc.Steps {
		sum.Steps++
		if st.Arr {
			if err := s.PassAllTransparent(st.T); err != nil {
				stuck = true
				break
			}
			continue
		}
		_, err := s.Step(st.T)
		if err != nil {
			if _, ok := err.(vrt.ErrStuck); ok {
				stuck = true
				break
			}
			sum.Drift++
			if len(sum.DriftAt) < 5 {
				sum.DriftAt = append(sum.DriftAt, fmt.Sprintf("%s step %d (%s %s): %v", sc.ID, i, st.T, st.A, err))
			}
			continue
		}
		if err := s.PassTransparent(st.T); err != nil {
			stuck = true
			break
		}
		if last != "" && last != st.T {
			switches++
		}
		last = st.T
		if want, ok := st.X["wire"]; ok {
			rec.mu.Lock()
			got := rec.writes
			rec.mu.Unlock()
			if got != want {
				sum.Drift++
				if len(sum.DriftAt) < 5 {
					sum.DriftAt = append(sum.DriftAt, fmt.Sprintf("%s step %d (%s %s): %d frames on the wire, model %d", sc.ID, i, st.T, st.A, got, want))
				}
			}
		}
	}
	if switches >= 2 {
		sum.Interleave++
	}
	if !stuck {
		if _, err := s.RunToQuiescence(10000, nil); err != nil {
			stuck = true
		}
	}
	quiet := !stuck && s.AllExited()
	vrt.Install(nil)
	for _, name := range s.Threads() {
		if t := s.Thread(name); t.Panic != nil {
			tr.Emit(hlib.Ev{"ev": "panic", "thr": name, "msg": fmt.Sprint(t.Panic)})
			s.Abandon()
			return
		}
	}
	if !quiet {
		sum.Stuck++
		s.Abandon()
		tr.Emit(hlib.Ev{"ev": "stuck"})
		return
	}
	// decode what reached the wire
	rec.mu.Lock()
	wire := append([]byte{}, rec.buf.Bytes()...)
	rec.mu.Unlock()
	br := bufio.NewReader(bytes.NewReader(wire))
	asm := hlib.NewWsAssembler()
	for {
		f, err := hlib.WsReadFrame(br)
		if err != nil {
			if err.Error() != "EOF" {
				tr.Emit(hlib.Ev{"ev": "wbad", "what": "truncated frame: " + err.Error()})
			}
			break
		}
		op, data, complete, bad := asm.Push(f)
		if bad != "" {
			tr.Emit(hlib.Ev{"ev": "wbad", "what": bad})
			break
		}
		if complete && op < 8 {
			w, seq, ok := hlib.WsParsePayload(data)
			tr.Emit(hlib.Ev{"ev": "wmsg", "writer": w, "seq": seq, "ok": ok, "len": len(data)})
		}
	}
	cbMu.Lock()
	closedNow := nclose > 0
	cbMu.Unlock()
	if !closedNow {
		if asm.Incomplete() {
			tr.Emit(hlib.Ev{"ev": "wbad", "what": "the last message on the wire is incomplete although every write returned"})
		}
		for _, name := range sc.Order {
			w, _ := strconv.Atoi(name[1:])
			if results[name].failed == 0 {
				tr.Emit(hlib.Ev{"ev": "wsent", "writer": w, "n": results[name].ok})
			}
		}
	}
	tr.Emit(hlib.Ev{"ev": "end"})
}
