// Command streamreal is the real-kernel leg (direction V) of C01 / C04 / C17: real TCP and unix
// sockets with small buffers, a paced peer, Write / Writev / Sendfile mixed from several goroutines,
// writes issued from other goroutines, inside the open callback, inside the data callback and on
// asynchronously dialed connections, in the three epoll modes.  The syscall shim runs in record
// mode (pass-through).  The peer decodes the self-describing payload; the observable events are
// validated by TLC against StreamMonTrace (lin = false: only real-time order of calls is claimed).
package main

import (
	"encoding/json"
	"errors"
	"flag"
	"fmt"
	"io"
	"math/rand"
	"net"
	"os"
	"path/filepath"
	"strings"
	"sync"
	"sync/atomic"
	"time"

	"github.com/lesismal/nbio"
	"github.com/lesismal/nbio/logging"
	"github.com/lesismal/nbio/zzverif/vsys"

	"verifharness/hlib"
)

type scen struct {
	ID        string `json:"id"`
	Focus     string `json:"focus"`
	Mode      string `json:"mode"`
	Transport string `json:"transport"`
	Origin    string `json:"origin"` // goroutine | onopen | ondata | dial
	Writers   int    `json:"writers"`
	Calls     int    `json:"calls"`
	MaxSize   int    `json:"maxsize"`
	MaxWB     int    `json:"maxwb"`
	Seed      int64  `json:"seed"`
	Leg       string `json:"leg"`
	Ops       string `json:"ops"`    // which operations: "wvs" any of write, writev, sendfile
	Paused    bool   `json:"paused"` // the peer reads nothing until every call was made: a backlog of many queue entries
}

type summary struct {
	Scenarios  []scen `json:"scenarios"`
	Bytes      int64  `json:"bytes"`
	Partial    int64  `json:"partial_or_eagain"`
	Nontrivial int    `json:"nontrivial"`
}

var tr *hlib.Trace
var tmpdir string

func errName(err error) string {
	switch {
	case err == nil:
		return "nil"
	case errors.Is(err, net.ErrClosed):
		return "closed"
	case strings.Contains(err.Error(), "overflow"):
		return "overflow"
	}
	return "other"
}

func main() {
	out := flag.String("trace", "", "")
	scens := flag.String("scenarios", "", "json file with a list of scenarios")
	flag.Parse()
	logging.SetLevel(logging.LevelNone)
	var err error
	tr, err = hlib.NewTrace(*out)
	if err != nil {
		hlib.Fatal("%v", err)
	}
	tmpdir, _ = os.MkdirTemp("", "streamreal")
	defer os.RemoveAll(tmpdir)
	var list []scen
	b, err := os.ReadFile(*scens)
	if err != nil {
		hlib.Fatal("%v", err)
	}
	if err := json.Unmarshal(b, &list); err != nil {
		hlib.Fatal("%v", err)
	}
	var sum summary
	for _, s := range list {
		runScen(s, &sum)
	}
	if err := tr.Close(); err != nil {
		hlib.Fatal("%v", err)
	}
	os.RemoveAll(tmpdir)
	jb, _ := json.Marshal(sum)
	fmt.Println(string(jb))
	os.Exit(0)
}

func runScen(s scen, sum *summary) {
	rnd := rand.New(rand.NewSource(s.Seed))
	cfg := nbio.Config{NPoller: 1, MaxWriteBufferSize: s.MaxWB}
	switch s.Mode {
	case "ET":
		cfg.EpollMod = nbio.EPOLLET
	case "OS":
		cfg.EpollMod = nbio.EPOLLET
		cfg.EPOLLONESHOT = nbio.EPOLLONESHOT
	}
	network := "tcp"
	addr := "127.0.0.1:0"
	if s.Transport == "unix" {
		network = "unix"
		addr = filepath.Join(tmpdir, fmt.Sprintf("s%d.sock", rnd.Int63()))
	}
	var stdLn net.Listener
	if s.Origin == "dial" || s.Origin == "dialcb" {
		var err error
		stdLn, err = net.Listen(network, addr)
		if err != nil {
			hlib.Fatal("listen: %v", err)
		}
		defer stdLn.Close()
	} else {
		cfg.Network = network
		cfg.Addrs = []string{addr}
	}
	g := nbio.NewEngine(cfg)

	tr.Emit(hlib.Ev{"ev": "reset", "id": s.ID, "focus": s.Focus, "maxwb": s.MaxWB, "lin": false})
	sum.Scenarios = append(sum.Scenarios, s)
	dec := hlib.NewDecoder()
	var decMu sync.Mutex
	var nsid int32
	var accepted, received int64
	var partial int64
	var connFd int32 = -1
	vsys.RecSys = func(name string, fd int, n int, err error) {
		if int32(fd) != atomic.LoadInt32(&connFd) {
			return
		}
		if err != nil {
			atomic.AddInt64(&partial, 1)
		}
		if n > 0 && s.Focus == "C17" && name != "sendfile" {
			tr.Emit(hlib.Ev{"ev": "ktaken", "n": n})
		}
	}
	defer func() { vsys.RecSys = nil }()

	// plan: per writer a list of ops
	type op struct {
		kind string
		ns   []int
	}
	pick := func() op {
		kinds := []string{}
		for _, ch := range s.Ops {
			switch ch {
			case 'w':
				kinds = append(kinds, "write")
			case 'v':
				kinds = append(kinds, "writev")
			case 's':
				kinds = append(kinds, "sendfile")
			}
		}
		k := kinds[rnd.Intn(len(kinds))]
		size := func() int {
			switch rnd.Intn(6) {
			case 0:
				return rnd.Intn(3)
			case 1:
				return 65535 + rnd.Intn(3)
			case 2:
				return 1 + rnd.Intn(200)
			default:
				return 1 + rnd.Intn(s.MaxSize)
			}
		}
		if k == "writev" {
			n := 2 + rnd.Intn(3)
			var ns []int
			for i := 0; i < n; i++ {
				ns = append(ns, size())
			}
			return op{k, ns}
		}
		return op{k, []int{size()}}
	}
	plans := make([][]op, s.Writers)
	for w := range plans {
		for i := 0; i < s.Calls; i++ {
			plans[w] = append(plans[w], pick())
		}
	}
	var closedFlag int32
	doOp := func(c *nbio.Conn, o op) {
		total := 0
		for _, x := range o.ns {
			total += x
		}
		decMu.Lock()
		sid := int(atomic.AddInt32(&nsid, 1)) - 1
		dec.AddStream(sid, total)
		decMu.Unlock()
		var n int
		var err error
		switch o.kind {
		case "write":
			p := hlib.Payload(sid, 0, total)
			tr.Emit(hlib.Ev{"ev": "call", "sid": sid, "op": o.kind, "n": total, "buf": true})
			n, err = c.Write(p)
			// the caller owns its buffer again once the call has returned: what it writes into it now must not reach the peer
			if os.Getenv("VERIF_SCRIBBLE") != "" {
				for i := range p {
					p[i] = 0xEE
				}
			}
		case "writev":
			var bs [][]byte
			off := 0
			for _, x := range o.ns {
				bs = append(bs, hlib.Payload(sid, off, x))
				off += x
			}
			tr.Emit(hlib.Ev{"ev": "call", "sid": sid, "op": o.kind, "n": total, "buf": true})
			n, err = c.Writev(bs)
			if os.Getenv("VERIF_SCRIBBLE") != "" {
				for _, b := range bs {
					for i := range b {
						b[i] = 0xEE
					}
				}
			}
		case "sendfile":
			f, ferr := os.CreateTemp(tmpdir, "sf")
			if ferr != nil {
				hlib.Fatal("tempfile: %v", ferr)
			}
			f.Write(hlib.Payload(sid, 0, total))
			f.Seek(0, 0)
			tr.Emit(hlib.Ev{"ev": "call", "sid": sid, "op": o.kind, "n": total, "buf": false})
			var n64 int64
			n64, err = c.Sendfile(f, int64(total))
			n = int(n64)
			f.Close()
			os.Remove(f.Name())
		}
		tr.Emit(hlib.Ev{"ev": "ret", "sid": sid, "n": n, "err": errName(err)})
		if err == nil {
			atomic.AddInt64(&accepted, int64(total))
		}
	}
	var pauseReader int32
	runPlan := func(c *nbio.Conn, plan []op) {
		if s.Focus == "C17" {
			// phase 1: a modest backlog (incl. queued files) while the peer is paused; phase 2: the peer
			// drains everything; phase 3: fill up to and beyond the bound while the peer is paused again
			atomic.StoreInt32(&pauseReader, 1)
			budget := s.MaxWB / 2
			i := 0
			for ; i < len(plan)/2; i++ {
				o := plan[i]
				sz := 0
				for _, x := range o.ns {
					sz += x
				}
				if o.kind != "sendfile" {
					if sz > budget {
						continue
					}
					budget -= sz
				}
				doOp(c, o)
			}
			atomic.StoreInt32(&pauseReader, 0)
			deadline := time.Now().Add(10 * time.Second)
			for atomic.LoadInt64(&received) < atomic.LoadInt64(&accepted) && time.Now().Before(deadline) &&
				atomic.LoadInt32(&closedFlag) == 0 {
				time.Sleep(time.Millisecond)
			}
			time.Sleep(5 * time.Millisecond)
			atomic.StoreInt32(&pauseReader, 1)
			for ; i < len(plan); i++ {
				if atomic.LoadInt32(&closedFlag) != 0 {
					break
				}
				doOp(c, plan[i])
			}
			atomic.StoreInt32(&pauseReader, 0)
			return
		}
		if s.Paused {
			atomic.StoreInt32(&pauseReader, 1)
			defer atomic.StoreInt32(&pauseReader, 0)
		}
		for _, o := range plan {
			if atomic.LoadInt32(&closedFlag) != 0 {
				return
			}
			doOp(c, o)
		}
	}

	connCh := make(chan *nbio.Conn, 1)
	var writersWG sync.WaitGroup
	startWriters := func(c *nbio.Conn, from int) {
		for w := from; w < s.Writers; w++ {
			writersWG.Add(1)
			go func(w int) {
				defer writersWG.Done()
				runPlan(c, plans[w])
			}(w)
		}
	}
	var dataOnce sync.Once
	prep := func(c *nbio.Conn) {
		atomic.StoreInt32(&connFd, int32(nbio.VerifFd(c)))
		if !s.Paused {
			_ = c.SetWriteBuffer(16384)
		}
	}
	g.OnOpen(func(c *nbio.Conn) {
		if s.Origin == "dial" || s.Origin == "dialcb" {
			return
		}
		prep(c)
		if s.Origin == "onopen" {
			runPlan(c, plans[0]) // writer 0 runs inside the open callback
		}
		connCh <- c
	})
	g.OnData(func(c *nbio.Conn, data []byte) {
		if s.Origin == "ondata" {
			dataOnce.Do(func() { runPlan(c, plans[0]) }) // writer 0 runs inside the data callback
		}
	})
	g.OnClose(func(c *nbio.Conn, err error) {
		atomic.StoreInt32(&closedFlag, 1)
		tr.Emit(hlib.Ev{"ev": "onclose", "err": fmt.Sprint(err)})
	})
	if err := g.Start(); err != nil {
		hlib.Fatal("start: %v", err)
	}
	defer func() {
		done := make(chan struct{})
		go func() { g.Stop(); close(done) }()
		select {
		case <-done:
		case <-time.After(10 * time.Second):
		}
	}()

	// ---- the peer ----
	var peer net.Conn
	if s.Origin == "dial" || s.Origin == "dialcb" {
		accCh := make(chan net.Conn, 1)
		go func() {
			pc, err := stdLn.Accept()
			if err == nil {
				accCh <- pc
			}
		}()
		dialed := make(chan *nbio.Conn, 1)
		err := g.DialAsync(network, stdLn.Addr().String(), func(c *nbio.Conn, err error) {
			if err != nil {
				dialed <- nil
				return
			}
			prep(c)
			if s.Origin == "dialcb" {
				runPlan(c, plans[0]) // writer 0 runs inside the dial callback
			}
			dialed <- c
		})
		if err != nil {
			hlib.Fatal("DialAsync: %v", err)
		}
		select {
		case peer = <-accCh:
		case <-time.After(5 * time.Second):
			hlib.Fatal("accept timed out")
		}
		select {
		case c := <-dialed:
			if c == nil {
				hlib.Fatal("dial failed")
			}
			connCh <- c
		case <-time.After(5 * time.Second):
			hlib.Fatal("dial callback timed out")
		}
	} else {
		var err error
		peer, err = net.Dial(network, g.Addrs[0])
		if err != nil {
			hlib.Fatal("dial: %v", err)
		}
	}
	defer peer.Close()
	if tc, ok := peer.(*net.TCPConn); ok && !s.Paused {
		// (the paused scenarios keep the kernel's default buffers: a flush then hands over many queue entries without EAGAIN)
		_ = tc.SetReadBuffer(16384)
	}
	if uc, ok := peer.(*net.UnixConn); ok {
		_ = uc.SetReadBuffer(16384)
	}
	var c *nbio.Conn
	select {
	case c = <-connCh:
	case <-time.After(5 * time.Second):
		hlib.Fatal("no connection")
	}
	if s.Origin == "ondata" {
		peer.Write([]byte("go"))
	}
	from := 0
	if s.Origin == "onopen" || s.Origin == "ondata" || s.Origin == "dialcb" {
		from = 1
	}
	startWriters(c, from)
	wdone := make(chan struct{})
	go func() { writersWG.Wait(); close(wdone) }()
	// reader
	var lastProgress int64 = time.Now().UnixNano()
	readerDone := make(chan struct{})
	stopReader := make(chan struct{})
	go func() {
		defer close(readerDone)
		buf := make([]byte, 32*1024)
		prnd := rand.New(rand.NewSource(s.Seed ^ 0x5555))
		for {
			if atomic.LoadInt32(&pauseReader) != 0 {
				time.Sleep(200 * time.Microsecond)
				select {
				case <-stopReader:
					return
				default:
				}
				continue
			}
			select {
			case <-stopReader:
				return
			default:
			}
			_ = peer.SetReadDeadline(time.Now().Add(200 * time.Millisecond))
			want := 1 + prnd.Intn(len(buf))
			n, err := peer.Read(buf[:want])
			if n > 0 {
				decMu.Lock()
				rs := dec.Decode(buf[:n])
				decMu.Unlock()
				for _, r := range rs {
					tr.Emit(hlib.Ev{"ev": "take", "sid": r.Sid, "lo": r.Lo, "hi": r.Hi, "peer": true})
				}
				atomic.AddInt64(&received, int64(n))
				atomic.StoreInt64(&lastProgress, time.Now().UnixNano())
				if prnd.Intn(16) == 0 {
					time.Sleep(time.Duration(prnd.Intn(200)) * time.Microsecond)
				}
			}
			if err != nil {
				var ne net.Error
				if errors.As(err, &ne) && ne.Timeout() {
					continue
				}
				if err == io.EOF || true {
					return
				}
			}
		}
	}()
	select {
	case <-wdone:
	case <-time.After(60 * time.Second):
		tr.Emit(hlib.Ev{"ev": "stuck"})
		return
	}
	// wait until everything accepted has arrived, or nothing moved for 3 s
	for {
		if atomic.LoadInt64(&received) >= atomic.LoadInt64(&accepted) {
			break
		}
		if atomic.LoadInt32(&closedFlag) != 0 {
			break
		}
		if time.Now().UnixNano()-atomic.LoadInt64(&lastProgress) > int64(3*time.Second) {
			break
		}
		time.Sleep(2 * time.Millisecond)
	}
	if s.Origin == "onopen" || s.Origin == "ondata" {
		time.Sleep(20 * time.Millisecond)
	}
	closed, _ := c.IsClosed()
	if closed {
		time.Sleep(100 * time.Millisecond) // let the close notification arrive
	}
	st := nbio.VerifState(c)
	queued := 0
	for _, q := range st.Queue {
		if q < 0 {
			q = -q
		}
		queued += int(q)
	}
	close(stopReader)
	<-readerDone
	tr.Emit(hlib.Ev{"ev": "quiesce", "open": !closed, "queued": queued, "kbuf": 0})
	sum.Bytes += atomic.LoadInt64(&received)
	sum.Partial += atomic.LoadInt64(&partial)
	if atomic.LoadInt64(&partial) > 0 {
		sum.Nontrivial++
	}
}
