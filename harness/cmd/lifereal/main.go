// Command lifereal is the real-kernel leg (direction V) of C03: connections of a real engine are
// ended by the causes the kernel produces (peer close, peer reset, write to a reset peer), by Close
// hammered from several goroutines, by Engine.Stop; asynchronous dials go to a listening, a refused
// and a black-holed address.  One trace scenario per connection / dial, validated by TLC against
// LifeMonTrace.
package main

import (
	"encoding/json"
	"errors"
	"flag"
	"fmt"
	"io"
	"math/rand"
	"net"
	"os"
	"path/filepath"
	"strings"
	"sync"
	"sync/atomic"
	"syscall"
	"time"

	"github.com/lesismal/nbio"
	"github.com/lesismal/nbio/logging"

	"verifharness/hlib"
)

type scen struct {
	ID        string `json:"id"`
	Mode      string `json:"mode"`
	Transport string `json:"transport"`
	Kind      string `json:"kind"`
	Seed      int64  `json:"seed"`
	Conns     int    `json:"conns"`
}

var tr *hlib.Trace
var tmpdir string
var nconn int64

func causeName(err error) string {
	switch {
	case err == nil:
		return "nil"
	case errors.Is(err, io.EOF):
		return "eof"
	case errors.Is(err, syscall.ECONNRESET) || strings.Contains(err.Error(), "reset"):
		return "reset"
	case errors.Is(err, syscall.EPIPE):
		return "werr"
	case errors.Is(err, syscall.ECONNREFUSED):
		return "refused"
	case strings.Contains(err.Error(), "timeout"):
		return "timeout"
	}
	return err.Error()
}

func errName(err error) string {
	switch {
	case err == nil:
		return "nil"
	case errors.Is(err, net.ErrClosed):
		return "closed"
	}
	return "other"
}

func engineCfg(s scen) nbio.Config {
	cfg := nbio.Config{NPoller: 2}
	switch s.Mode {
	case "ET":
		cfg.EpollMod = nbio.EPOLLET
	case "OS":
		cfg.EpollMod = nbio.EPOLLET
		cfg.EPOLLONESHOT = nbio.EPOLLONESHOT
	}
	return cfg
}

// per-connection recorder
type connRec struct {
	id      string
	mu      sync.Mutex
	evs     []hlib.Ev
	closed  int32
	done    chan struct{}
	once    sync.Once
}

func (r *connRec) add(e hlib.Ev) {
	r.mu.Lock()
	r.evs = append(r.evs, e)
	r.mu.Unlock()
}

func (r *connRec) flush(closedNow bool) { r.flushX(closedNow, false) }

func (r *connRec) flushX(closedNow bool, expect bool) {
	r.mu.Lock()
	defer r.mu.Unlock()
	tr.Emit(hlib.Ev{"ev": "reset", "id": r.id, "sim": false})
	for _, e := range r.evs {
		tr.Emit(e)
	}
	tr.Emit(hlib.Ev{"ev": "quiesce", "closed": closedNow, "fdcloses": 0, "badsys": 0, "expect": expect})
	atomic.AddInt64(&nconn, 1)
}

func stopEngine(g *nbio.Engine) {
	done := make(chan struct{})
	go func() { g.Stop(); close(done) }()
	select {
	case <-done:
	case <-time.After(10 * time.Second):
	}
}

func runConnScen(s scen) {
	rnd := rand.New(rand.NewSource(s.Seed))
	cfg := engineCfg(s)
	network, addr := "tcp", "127.0.0.1:0"
	if s.Transport == "unix" {
		network, addr = "unix", filepath.Join(tmpdir, fmt.Sprintf("l%d.sock", rnd.Int63()))
	}
	cfg.Network, cfg.Addrs = network, []string{addr}
	g := nbio.NewEngine(cfg)
	var mu sync.Mutex
	recs := map[*nbio.Conn]*connRec{}
	var order []*connRec
	get := func(c *nbio.Conn) *connRec {
		mu.Lock()
		defer mu.Unlock()
		r := recs[c]
		if r == nil {
			r = &connRec{id: fmt.Sprintf("%s/%d", s.ID, len(recs)), done: make(chan struct{})}
			recs[c] = r
			order = append(order, r)
		}
		return r
	}
	opened := make(chan *nbio.Conn, 64)
	g.OnOpen(func(c *nbio.Conn) {
		get(c).add(hlib.Ev{"ev": "open"})
		opened <- c
	})
	g.OnData(func(c *nbio.Conn, d []byte) {})
	g.OnClose(func(c *nbio.Conn, err error) {
		r := get(c)
		r.add(hlib.Ev{"ev": "onclose", "err": causeName(err)})
		if atomic.AddInt32(&r.closed, 1) > 1 {
			// a second close notification: the engine's bookkeeping (a WaitGroup) panics right after this
			// handler returns; put the evidence on disk first
			r.flushX(true, false)
			tr.Sync()
		}
		r.once.Do(func() { close(r.done) })
	})
	if err := g.Start(); err != nil {
		hlib.Fatal("start: %v", err)
	}
	var peers []net.Conn
	var conns []*nbio.Conn
	for i := 0; i < s.Conns; i++ {
		p, err := net.Dial(network, g.Addrs[0])
		if err != nil {
			hlib.Fatal("dial: %v", err)
		}
		peers = append(peers, p)
		select {
		case c := <-opened:
			conns = append(conns, c)
		case <-time.After(5 * time.Second):
			hlib.Fatal("no open notification")
		}
	}
	// a little traffic
	for _, p := range peers {
		p.Write([]byte("hello"))
	}
	time.Sleep(2 * time.Millisecond)
	waitAll := func(d time.Duration) {
		dl := time.After(d)
		for _, c := range conns {
			select {
			case <-get(c).done:
			case <-dl:
				return
			}
		}
	}
	probe := func(c *nbio.Conn) {
		// after Close has returned every operation must fail with the closed indication
		r := get(c)
		r.add(hlib.Ev{"ev": "call", "sid": 900, "op": "write"})
		n, err := c.Write([]byte("x"))
		r.add(hlib.Ev{"ev": "ret", "sid": 900, "n": n, "err": errName(err)})
		r.add(hlib.Ev{"ev": "exec", "ok": c.Execute(func() {})})
	}
	switch s.Kind {
	case "peerclose":
		for i, p := range peers {
			get(conns[i]).add(hlib.Ev{"ev": "cause", "c": "eof"})
			p.Close()
		}
		waitAll(5 * time.Second)
	case "peerreset":
		for i, p := range peers {
			get(conns[i]).add(hlib.Ev{"ev": "cause", "c": "eof"})
			get(conns[i]).add(hlib.Ev{"ev": "cause", "c": "reset"})
			if tc, ok := p.(*net.TCPConn); ok {
				tc.SetLinger(0)
			}
			p.Close()
		}
		waitAll(5 * time.Second)
	case "hammer":
		for _, c := range conns {
			c := c
			r := get(c)
			// a job of this connection is still running when it is closed: Execute must refuse afterwards
			started := make(chan struct{})
			release := make(chan struct{})
			go c.Execute(func() { close(started); <-release })
			select {
			case <-started:
			case <-time.After(2 * time.Second):
			}
			var wg sync.WaitGroup
			for k := 0; k < 8; k++ {
				k := k
				wg.Add(1)
				go func() {
					defer wg.Done()
					name := fmt.Sprintf("g%d", k)
					if k%3 == 0 {
						r.add(hlib.Ev{"ev": "closecall", "t": name, "c": "nil"})
						c.Close()
					} else {
						r.add(hlib.Ev{"ev": "closecall", "t": name, "c": name})
						c.CloseWithError(errors.New(name))
					}
					r.add(hlib.Ev{"ev": "closeret", "t": name})
				}()
				if k == 4 {
					c.Write([]byte("racing write"))
				}
			}
			wg.Wait()
			probe(c)
			close(release)
		}
		waitAll(5 * time.Second)
	case "flushreset":
		// a backlog first (the peer does not read), then the peer resets: the error surfaces in the poller's flush
		for i, p := range peers {
			r := get(conns[i])
			for _, cn := range []string{"eof", "reset", "werr"} {
				r.add(hlib.Ev{"ev": "cause", "c": cn})
			}
			for k := 0; k < 64; k++ {
				if _, err := conns[i].Write(make([]byte, 256*1024)); err != nil {
					break
				}
			}
			time.Sleep(5 * time.Millisecond)
			if tc, ok := p.(*net.TCPConn); ok {
				tc.SetLinger(0)
			}
			p.Close()
		}
		waitAll(5 * time.Second)
	case "writereset":
		for i, p := range peers {
			r := get(conns[i])
			for _, cn := range []string{"eof", "reset", "werr"} {
				r.add(hlib.Ev{"ev": "cause", "c": cn})
			}
			if tc, ok := p.(*net.TCPConn); ok {
				tc.SetLinger(0)
			}
			p.Close()
			for k := 0; k < 50; k++ {
				if _, err := conns[i].Write(make([]byte, 64*1024)); err != nil {
					break
				}
				time.Sleep(200 * time.Microsecond)
			}
		}
		waitAll(5 * time.Second)
	case "sendfilereset":
		// the peer resets, then the application calls Sendfile (which fails hard) and Close, racing with the poller's
		// own handling of the reset: still exactly one notification
		f, ferr := os.CreateTemp(tmpdir, "sf")
		if ferr != nil {
			hlib.Fatal("tempfile: %v", ferr)
		}
		f.Truncate(4 << 20)
		for i, p := range peers {
			r := get(conns[i])
			for _, cn := range []string{"eof", "reset", "werr", "nil"} {
				r.add(hlib.Ev{"ev": "cause", "c": cn})
			}
			if tc, ok := p.(*net.TCPConn); ok {
				tc.SetLinger(0)
			}
			p.Close()
			for k := 0; k < 50; k++ {
				f.Seek(0, 0)
				if _, err := conns[i].Sendfile(f, 0); err != nil {
					break
				}
				time.Sleep(200 * time.Microsecond)
			}
			conns[i].Close()
			conns[i].Close()
		}
		f.Close()
		os.Remove(f.Name())
		waitAll(5 * time.Second)
	case "stop":
		for _, c := range conns {
			get(c).add(hlib.Ev{"ev": "cause", "c": "nil"})
		}
	}
	expect := s.Kind != "stop" // every other kind ends the connection before Stop
	if expect {
		// give a pending close notification time to arrive, then record the state BEFORE Stop closes what is left
		time.Sleep(50 * time.Millisecond)
		for _, c := range conns {
			closed, _ := c.IsClosed()
			get(c).flushX(closed, true)
		}
		stopEngine(g)
	} else {
		stopEngine(g)
		for _, c := range conns {
			closed, _ := c.IsClosed()
			get(c).flush(closed)
		}
	}
	for _, p := range peers {
		p.Close()
	}
}

// blackhole returns an address on which connect() stays in progress: a listener with backlog 0 whose
// accept queue is kept full.
func blackhole() (string, func(), bool) {
	fd, err := syscall.Socket(syscall.AF_INET, syscall.SOCK_STREAM, 0)
	if err != nil {
		return "", nil, false
	}
	if err := syscall.Bind(fd, &syscall.SockaddrInet4{Addr: [4]byte{127, 0, 0, 1}}); err != nil {
		syscall.Close(fd)
		return "", nil, false
	}
	if err := syscall.Listen(fd, 0); err != nil {
		syscall.Close(fd)
		return "", nil, false
	}
	sa, _ := syscall.Getsockname(fd)
	port := sa.(*syscall.SockaddrInet4).Port
	addr := fmt.Sprintf("127.0.0.1:%d", port)
	var fill []net.Conn
	for i := 0; i < 4; i++ {
		c, err := net.DialTimeout("tcp", addr, 150*time.Millisecond)
		if err != nil {
			break
		}
		fill = append(fill, c)
	}
	// verify that a further connect really hangs
	c, err := net.DialTimeout("tcp", addr, 200*time.Millisecond)
	if err == nil {
		c.Close()
		for _, f := range fill {
			f.Close()
		}
		syscall.Close(fd)
		return "", nil, false
	}
	return addr, func() {
		for _, f := range fill {
			f.Close()
		}
		syscall.Close(fd)
	}, true
}

func runDialScen(s scen) {
	rnd := rand.New(rand.NewSource(s.Seed))
	g := nbio.NewEngine(engineCfg(s))
	rec := &connRec{id: s.ID + "/0", done: make(chan struct{})}
	g.OnOpen(func(c *nbio.Conn) { rec.add(hlib.Ev{"ev": "open"}) })
	g.OnData(func(c *nbio.Conn, d []byte) {})
	var dialedClosed int32
	g.OnClose(func(c *nbio.Conn, err error) {
		// a dialed connection has no open notification of its own; its life starts with the dial
		if s.Kind == "dial-peerclose" {
			rec.add(hlib.Ev{"ev": "onclose", "err": causeName(err)})
			atomic.StoreInt32(&dialedClosed, 1)
			return
		}
		rec.add(hlib.Ev{"ev": "oncloseinfo", "err": causeName(err)})
	})
	if err := g.Start(); err != nil {
		hlib.Fatal("start: %v", err)
	}
	stopped := false
	defer func() {
		if !stopped {
			stopEngine(g)
		}
	}()
	network := "tcp"
	var addr string
	var cleanup func()
	accepted := int32(0)
	timeout := time.Duration(0)
	switch s.Kind {
	case "dial-ok", "dial-close", "dial-peerclose":
		a := "127.0.0.1:0"
		if s.Transport == "unix" {
			network, a = "unix", filepath.Join(tmpdir, fmt.Sprintf("d%d.sock", rnd.Int63()))
		}
		ln, err := net.Listen(network, a)
		if err != nil {
			hlib.Fatal("listen: %v", err)
		}
		addr = ln.Addr().String()
		go func() {
			for {
				c, err := ln.Accept()
				if err != nil {
					return
				}
				atomic.AddInt32(&accepted, 1)
				if s.Kind == "dial-peerclose" {
					go func(c net.Conn) { time.Sleep(100 * time.Millisecond); c.Close() }(c)
				} else {
					defer c.Close()
				}
			}
		}()
		cleanup = func() { ln.Close() }
	case "dial-refused":
		if s.Transport == "unix" {
			network, addr = "unix", filepath.Join(tmpdir, fmt.Sprintf("nobody%d.sock", rnd.Int63()))
			cleanup = func() {}
		} else {
			ln, err := net.Listen("tcp", "127.0.0.1:0")
			if err != nil {
				hlib.Fatal("listen: %v", err)
			}
			addr = ln.Addr().String()
			ln.Close() // nobody listens there any more
			cleanup = func() {}
		}
	case "dial-timeout":
		a, cl, ok := blackhole()
		if !ok {
			return // cannot build the scenario on this kernel: nothing claimed
		}
		addr, cleanup, timeout = a, cl, 300*time.Millisecond
	case "dial-pending-stop":
		// the connect is still in progress when the engine is stopped: the outcome must be an error
		a, cl, ok := blackhole()
		if !ok {
			return
		}
		addr, cleanup, timeout = a, cl, 30*time.Second
	}
	defer cleanup()
	rec.add(hlib.Ev{"ev": "dial", "id": 1})
	var cbCount int32
	cb := func(c *nbio.Conn, err error) {
		atomic.AddInt32(&cbCount, 1)
		connected := false
		if err == nil && c != nil {
			// is the socket really connected?  SO_ERROR must be 0 and the peer address must be there
			v, e1 := syscall.GetsockoptInt(nbio.VerifFd(c), syscall.SOL_SOCKET, syscall.SO_ERROR)
			_, e2 := syscall.Getpeername(nbio.VerifFd(c))
			connected = e1 == nil && v == 0 && e2 == nil
		}
		rec.add(hlib.Ev{"ev": "dialcb", "id": 1, "err": causeName(err), "connected": connected})
		if s.Kind == "dial-peerclose" && err == nil {
			rec.add(hlib.Ev{"ev": "open"}) // the life of a dialed connection starts with the successful dial
			rec.add(hlib.Ev{"ev": "cause", "c": "eof"})
			rec.add(hlib.Ev{"ev": "cause", "c": "reset"})
		}
	}
	var err error
	if timeout > 0 {
		err = g.DialAsyncTimeout(network, addr, timeout, cb)
	} else {
		err = g.DialAsync(network, addr, cb)
	}
	if err != nil {
		// a synchronous error IS the (single) report of the outcome
		rec.add(hlib.Ev{"ev": "dialcb", "id": 1, "err": causeName(err), "connected": false})
	}
	if s.Kind == "dial-pending-stop" {
		time.Sleep(50 * time.Millisecond)
		stopEngine(g)
		stopped = true
		time.Sleep(100 * time.Millisecond)
	} else {
		time.Sleep(timeout + 700*time.Millisecond)
	}
	rec.add(hlib.Ev{"ev": "dialend", "id": 1})
	if s.Kind == "dial-peerclose" {
		rec.add(hlib.Ev{"ev": "quiesce", "closed": atomic.LoadInt32(&dialedClosed) == 1, "fdcloses": 0, "badsys": 0, "expect": true})
	}
	rec.mu.Lock()
	tr.Emit(hlib.Ev{"ev": "reset", "id": rec.id, "sim": false})
	for _, e := range rec.evs {
		tr.Emit(e)
	}
	rec.mu.Unlock()
	atomic.AddInt64(&nconn, 1)
}

func main() {
	out := flag.String("trace", "", "")
	scens := flag.String("scenarios", "", "")
	flag.Parse()
	logging.SetLevel(logging.LevelNone)
	var err error
	tr, err = hlib.NewTrace(*out)
	if err != nil {
		hlib.Fatal("%v", err)
	}
	tmpdir, _ = os.MkdirTemp("", "lifereal")
	defer os.RemoveAll(tmpdir)
	var list []scen
	b, err := os.ReadFile(*scens)
	if err != nil {
		hlib.Fatal("%v", err)
	}
	if err := json.Unmarshal(b, &list); err != nil {
		hlib.Fatal("%v", err)
	}
	for _, s := range list {
		if strings.HasPrefix(s.Kind, "dial") {
			runDialScen(s)
		} else {
			runConnScen(s)
		}
	}
	tr.Close()
	os.RemoveAll(tmpdir)
	fmt.Printf("{\"connections\": %d}\n", atomic.LoadInt64(&nconn))
	os.Exit(0)
}
