// Command stopsim replays behaviours of EngineLife.tla on the real nbio engine under the cooperative
// scheduler (direction G of C18): the event loop, the accept loop, the goroutines of the engine's
// asynchronous queue, a goroutine calling AddConn and the goroutine calling Stop are managed threads; the
// listener is an in-memory one (Config.Listen) whose Accept is a yield point before and after it takes a
// connection; sockets, epoll and eventfd are the model kernel's.  One action of the specification is a
// macro step: the named thread runs until it reaches the blocking point the action ends at.
package main

import (
	"encoding/json"
	"errors"
	"flag"
	"fmt"
	"net"
	"os"
	"strconv"
	"sync"
	"sync/atomic"
	"time"

	"github.com/lesismal/nbio"
	"github.com/lesismal/nbio/logging"
	"github.com/lesismal/nbio/zzverif/vrt"
	"github.com/lesismal/nbio/zzverif/vsys"

	"verifharness/hlib"
)

type step struct {
	A string `json:"a"` // action of EngineLife.tla
	C string `json:"c"` // its argument (loop / connection)
	K string `json:"k"` // ARun: "c" = a close call of Stop, "n" = a close notification
}

type script struct {
	ID    string   `json:"id"`
	Pre   []string `json:"pre"`   // connections accepted and registered before anything else
	Conns []string `json:"conns"` // connections waiting in the listener
	Steps []step   `json:"steps"`
	Mode  string   `json:"mode"`
	X     []xstate `json:"x"` // model state after each step (drift measurement)
}

type xstate struct {
	Table  int    `json:"table"`
	Opened int    `json:"opened"`
	Closed int    `json:"notified"`
	StopPc string `json:"spc"`
}

type summary struct {
	Scripts int      `json:"scripts"`
	Steps   int      `json:"steps"`
	Drift   int      `json:"drift"`
	DriftAt []string `json:"drift_at"`
	Stuck   int      `json:"stuck"`
	Inter   int      `json:"interleaved"`
}

// ---- in-memory listener ----
type fakeLn struct {
	mu      sync.Mutex
	pending []*nbio.Conn
	last    *nbio.Conn // the connection the last successful Accept took
	closed  bool
}

func (l *fakeLn) Accept() (net.Conn, error) {
	if t := vrt.Cur(); t != nil {
		t.Yield(vrt.Op{Kind: "yield", Tag: "accept", Enabled: func() bool {
			l.mu.Lock()
			defer l.mu.Unlock()
			return l.closed || len(l.pending) > 0
		}})
	}
	l.mu.Lock()
	if l.closed {
		// a closed listener fails Accept even if connections were still queued (the kernel resets them)
		l.mu.Unlock()
		return nil, net.ErrClosed
	}
	if len(l.pending) == 0 {
		l.mu.Unlock()
		return nil, errors.New("verif: spurious accept")
	}
	c := l.pending[0]
	l.pending = l.pending[1:]
	l.last = c
	l.mu.Unlock()
	// the accept has completed; the goroutine may be descheduled before it goes on
	vrt.Yield("accepted")
	return c, nil
}
func (l *fakeLn) Close() error   { l.mu.Lock(); l.closed = true; l.mu.Unlock(); return nil }
func (l *fakeLn) Addr() net.Addr { return &net.TCPAddr{IP: net.IPv4(127, 0, 0, 1), Port: 1} }

var tr *hlib.Trace

func main() {
	in := flag.String("scripts", "", "")
	out := flag.String("trace", "", "")
	flag.Parse()
	logging.SetLevel(logging.LevelNone)
	var err error
	tr, err = hlib.NewTrace(*out)
	if err != nil {
		hlib.Fatal("%v", err)
	}
	var sum summary
	err = hlib.ReadLines(*in, func(b []byte) error {
		var sc script
		if err := json.Unmarshal(b, &sc); err != nil {
			return err
		}
		runScript(&sc, &sum)
		return nil
	})
	if err != nil {
		hlib.Fatal("%v", err)
	}
	tr.Close()
	b, _ := json.Marshal(sum)
	fmt.Println(string(b))
	os.Exit(0)
}

func runScript(sc *script, sum *summary) {
	sum.Scripts++
	tr.Emit(hlib.Ev{"ev": "reset", "id": sc.ID, "core": true, "sim": true})
	vsys.Reset(true)
	defer vsys.Reset(false)
	s := vrt.New()
	s.Watchdog = 5 * time.Second
	libn := 0
	s.SpawnName = func(n int) string { libn++; return "lib" + strconv.Itoa(libn) }
	vrt.Install(s)
	defer vrt.Install(nil)

	ln := &fakeLn{}
	cfg := nbio.Config{Network: "tcp", Addrs: []string{"fake"}, NPoller: 1,
		Listen: func(network, addr string) (net.Listener, error) { return ln, nil }}
	switch sc.Mode {
	case "ET":
		cfg.EpollMod = nbio.EPOLLET
	case "OS":
		cfg.EpollMod = nbio.EPOLLET
		cfg.EPOLLONESHOT = nbio.EPOLLONESHOT
	}
	g := nbio.NewEngine(cfg)
	var opens, closes int32
	g.OnOpen(func(c *nbio.Conn) { atomic.AddInt32(&opens, 1) })
	g.OnClose(func(c *nbio.Conn, err error) { atomic.AddInt32(&closes, 1) })
	g.OnData(func(c *nbio.Conn, data []byte) {})
	// Start runs on this unmanaged goroutine (shimmed operations pass through); its go statements create
	// the managed threads lib1 (event loop) and lib2 (accept loop), parked before their first instruction
	if err := g.Start(); err != nil {
		hlib.Fatal("start: %v", err)
	}
	const evT, accT = "lib1", "lib2"
	fds := map[string]int{} // connections handed to the engine (accepted or added), by their name in the model
	mk := func() *nbio.Conn {
		return nbio.VerifNewConn(vsys.NewSock(1<<16), nbio.ConnTypeTCP)
	}
	preConns := make([]*nbio.Conn, len(sc.Pre))
	for i := range sc.Pre {
		preConns[i] = mk() // (created first: Stop walks the table in descriptor order)
	}
	for range sc.Conns {
		ln.pending = append(ln.pending, mk())
	}
	took := func(name string) {
		ln.mu.Lock()
		if ln.last != nil {
			fds[name] = nbio.VerifFd(ln.last)
			ln.last = nil
		}
		ln.mu.Unlock()
	}
	stuck := false
	drift := func(i int, st step, f string, a ...interface{}) {
		sum.Drift++
		if len(sum.DriftAt) < 6 {
			sum.DriftAt = append(sum.DriftAt, fmt.Sprintf("%s step %d (%s %s): %s", sc.ID, i, st.A, st.C, fmt.Sprintf(f, a...)))
		}
	}
	// runUntil steps thread name until pred holds for its pending operation, it exits, or it is not runnable
	runUntil := func(name string, pred func(op vrt.Op) bool) bool {
		for k := 0; k < 400; k++ {
			t := s.Thread(name)
			if t == nil || t.Exited() {
				return true
			}
			if err := s.PassAllTransparent(name); err != nil {
				stuck = true
				return false
			}
			if t.Exited() {
				return true
			}
			if pred != nil && !t.Pending().Transparent && pred(t.Pending()) {
				return true
			}
			if !s.Runnable(name) {
				return false
			}
			if _, err := s.Step(name); err != nil {
				if _, ok := err.(vrt.ErrStuck); ok {
					stuck = true
				}
				return false
			}
		}
		return false
	}
	isTag := func(tag string) func(vrt.Op) bool { return func(op vrt.Op) bool { return op.Tag == tag } }
	isKind := func(kind string) func(vrt.Op) bool { return func(op vrt.Op) bool { return op.Kind == kind } }
	atWait := func(op vrt.Op) bool { return op.Kind == "sys" && op.Tag == "epoll_wait" }
	mains := map[string]bool{evT: true, accT: true, "stopper": true}
	begun := map[string]string{} // connection -> adder thread that has begun its AddConn
	// descriptors the engine is responsible for: accepted ones, and added ones whose AddConn call has returned (while the
	// call is in flight the descriptor still belongs to the caller; a refused AddConn closes it)
	handed := func() map[string]int {
		out := map[string]int{}
		for name, fd := range fds {
			if th, ok := begun[name]; ok {
				if t := s.Thread(th); t != nil && !t.Exited() {
					continue
				}
			}
			out[name] = fd
		}
		return out
	}
	stopperSpawned := false
	stopRet := false
	spawnStopper := func() {
		if stopperSpawned {
			return
		}
		stopperSpawned = true
		s.Spawn("stopper", func() {
			tr.Emit(hlib.Ev{"ev": "stopcall"})
			g.Stop()
			stopRet = true
			tr.Emit(hlib.Ev{"ev": "simret", "stopdone": true, "registered": nbio.VerifRegistered(g), "openfds": openFds(handed()),
				"opens": atomic.LoadInt32(&opens), "closes": atomic.LoadInt32(&closes)})
		})
	}
	// ---- prelude: the loops run, the PreOpen connections are accepted ----
	if len(sc.Pre) > 0 {
		runUntil(evT, atWait)
		for i, name := range sc.Pre {
			ln.mu.Lock()
			ln.pending = append([]*nbio.Conn{preConns[i]}, ln.pending...)
			ln.mu.Unlock()
			runUntil(accT, isTag("accepted"))
			took(name)
			s.Step(accT)
			runUntil(accT, isTag("accept"))
		}
	}
	last := ""
	switches := 0
	dialN := 0
	for i, st := range sc.Steps {
		sum.Steps++
		who := st.A
		switch st.A {
		case "LBegin":
			if st.C == "acc" {
				runUntil(accT, isTag("accept"))
			} else {
				runUntil(evT, atWait)
			}
		case "LAccept":
			if !runUntil(accT, isTag("accept")) || !s.Runnable(accT) {
				drift(i, st, "the accept loop is not waiting in Accept")
				break
			}
			s.Step(accT)
			if t := s.Thread(accT); t.Exited() || t.Pending().Tag != "accepted" {
				drift(i, st, "Accept did not deliver a connection")
			}
			took(st.C)
		case "LRegister":
			if t := s.Thread(accT); t.Exited() || t.Pending().Tag != "accepted" {
				drift(i, st, "no accepted connection in hand")
				break
			}
			s.Step(accT)
			runUntil(accT, isTag("accept"))
		case "LExit":
			name := accT
			if st.C == "ev" {
				name = evT
			}
			runUntil(name, func(vrt.Op) bool { return false })
			if t := s.Thread(name); !t.Exited() {
				drift(i, st, "loop did not exit (parked at %s)", t.Pending())
			}
		case "DAddBegin":
			// AddConn is called and passes its first lock acquisition (the "engine stopped?" check): whatever it does in that
			// critical section happens now, the rest when the DAdd step comes
			dialN++
			name := "adder" + strconv.Itoa(dialN)
			c := mk()
			fds[st.C] = nbio.VerifFd(c)
			who := st.C
			s.Spawn(name, func() {
				if _, err := g.AddConn(c); err != nil {
					tr.Emit(hlib.Ev{"ev": "addrefused", "c": who, "err": err.Error()})
				}
			})
			begun[st.C] = name
			if err := s.PassAllTransparent(name); err == nil && s.Runnable(name) {
				s.Step(name)
			}
		case "DAdd":
			name, ok := begun[st.C]
			if !ok {
				dialN++
				name = "adder" + strconv.Itoa(dialN)
				c := mk()
				fds[st.C] = nbio.VerifFd(c)
				who := st.C
				s.Spawn(name, func() {
					if _, err := g.AddConn(c); err != nil {
						tr.Emit(hlib.Ev{"ev": "addrefused", "c": who, "err": err.Error()})
					}
				})
				begun[st.C] = name
			}
			runUntil(name, func(vrt.Op) bool { return false })
		case "PClose":
			if fd, ok := fds[st.C]; ok {
				vsys.PeerClose(fd)
			}
			// the event loop handles the hang-up and parks in epoll_wait again
			if t := s.Thread(evT); t != nil && !t.Exited() {
				if s.Runnable(evT) {
					s.Step(evT)
				}
				runUntil(evT, func(op vrt.Op) bool { return atWait(op) })
			}
		case "SListeners":
			spawnStopper()
			runUntil("stopper", isKind("wait"))
		case "SJoin":
			if !s.Runnable("stopper") {
				drift(i, st, "Stop cannot pass the wait for the accept loops")
				break
			}
			s.Step("stopper")
			runUntil("stopper", isKind("lock"))
		case "SSnapshot":
			if !stopperSpawned {
				spawnStopper()
			}
			runUntil("stopper", func(op vrt.Op) bool { return op.Kind == "wait" })
		case "ARun":
			// the drainer of the asynchronous queue executes its head job: a close call of Stop (observable when the
			// connection was still open: its descriptor gets closed) or a close notification (the counter moves)
			before := atomic.LoadInt32(&closes)
			fd, known := fds[st.C]
			wasOpen := known && !vsys.State(fd).Closed
			if st.K == "c" && !wasOpen {
				break // nothing to observe: the job is a no-op executed on the way to the next one
			}
			done := func() bool {
				if st.K == "n" {
					return atomic.LoadInt32(&closes) != before
				}
				return vsys.State(fd).Closed
			}
			for k := 0; k < 600 && !done(); k++ {
				progressed := false
				for _, name := range s.Threads() {
					if mains[name] || !s.Runnable(name) {
						continue
					}
					if _, err := s.Step(name); err == nil {
						progressed = true
					}
					if done() {
						break
					}
				}
				if !progressed {
					break
				}
			}
			if !done() {
				drift(i, st, "the asynchronous queue did not execute the job")
			}
		case "SWait":
			if !s.Runnable("stopper") {
				drift(i, st, "Stop cannot pass the wait for the close notifications (wgConn)")
				break
			}
			s.Step("stopper")
			runUntil("stopper", func(op vrt.Op) bool { return op.Kind == "sys" || op.Kind == "wait" })
		case "SPollers":
			runUntil("stopper", isKind("wait"))
		case "SJoinAll":
			if !s.Runnable("stopper") {
				drift(i, st, "Stop cannot pass the final wait")
				break
			}
			s.Step("stopper")
			runUntil("stopper", func(vrt.Op) bool { return false })
		default:
			hlib.Fatal("unknown action %q", st.A)
		}
		if stuck {
			break
		}
		if who != last && last != "" {
			switches++
		}
		last = who
		if i < len(sc.X) {
			x := sc.X[i]
			if got := nbio.VerifRegistered(g); got != x.Table {
				drift(i, st, "%d connections registered, model %d", got, x.Table)
			}
			if got := int(atomic.LoadInt32(&opens)); got != x.Opened {
				drift(i, st, "%d opened, model %d", got, x.Opened)
			}
			if got := int(atomic.LoadInt32(&closes)); got != x.Closed {
				drift(i, st, "%d close notifications, model %d", got, x.Closed)
			}
		}
	}
	if switches >= 3 {
		sum.Inter++
	}
	// ---- let everything finish ----
	if !stuck {
		spawnStopper()
		ln.mu.Lock()
		ln.pending = nil // connections nobody accepted are reset by the kernel when the listener is closed
		ln.mu.Unlock()
		if _, err := s.RunToQuiescence(20000, nil); err != nil {
			stuck = true
		}
	}
	vrt.Install(nil)
	for _, name := range s.Threads() {
		if t := s.Thread(name); t.Panic != nil {
			tr.Emit(hlib.Ev{"ev": "panic", "thr": name, "msg": fmt.Sprint(t.Panic)})
			s.Abandon()
			return
		}
	}
	if stuck {
		sum.Stuck++
		tr.Emit(hlib.Ev{"ev": "stuck"})
		s.Abandon()
		return
	}
	alive := 0
	for _, name := range s.Threads() {
		if t := s.Thread(name); !t.Exited() {
			alive++
		}
	}
	tr.Emit(hlib.Ev{"ev": "quiesce", "stopdone": stopRet, "alive": alive, "registered": nbio.VerifRegistered(g),
		"openfds": openFds(fds), "opens": atomic.LoadInt32(&opens), "closes": atomic.LoadInt32(&closes)})
	if alive > 0 {
		s.Abandon()
	}
}

// openFds counts the simulated sockets handed to the engine that were not closed
func openFds(fds map[string]int) int {
	n := 0
	for _, fd := range fds {
		if st := vsys.State(fd); !st.Closed {
			n++
		}
	}
	return n
}
