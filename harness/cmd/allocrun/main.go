// Command allocrun replays allocator programs generated from Alloc.tla on the three real allocators
// (pooled, size-aligned, standard), keeps a shadow copy of every live buffer, and records one event
// per call for validation by TLC against AllocMonTrace (C20).  With -par N, N goroutines run
// disjoint programs on the SAME allocator concurrently.
package main

import (
	"bytes"
	"encoding/json"
	"flag"
	"fmt"
	"os"
	"sync"
	"unsafe"

	"github.com/lesismal/nbio/mempool"

	"verifharness/hlib"
)

type op struct {
	K    string `json:"k"`
	Slot int    `json:"s"`
	N    int    `json:"n"`
}

type prog struct {
	ID    string `json:"id"`
	Alloc string `json:"alloc"`
	Ops   []op   `json:"ops"`
}

type buf struct {
	p      *[]byte
	shadow []byte
}

func pat(tag, n int) []byte {
	b := make([]byte, n)
	for i := range b {
		b[i] = byte(tag*131 + i*7 + 1)
	}
	return b
}

func runProg(a mempool.Allocator, pr *prog, tr *hlib.Trace, par bool) (nontrivial bool) {
	tr.Emit(hlib.Ev{"ev": "reset", "id": pr.ID, "alloc": pr.Alloc})
	live := map[int]*buf{}
	moved := false
	defer func() {
		if r := recover(); r != nil {
			tr.Emit(hlib.Ev{"ev": "panic", "msg": fmt.Sprint(r)})
		}
		for _, b := range live {
			a.Free(b.p)
		}
	}()
	for i, o := range pr.Ops {
		tag := i + 1
		ev := hlib.Ev{"ev": "op", "kind": o.K, "slot": o.Slot, "n": o.N, "len": -1, "content": true, "others": true, "disjoint": true}
		switch o.K {
		case "malloc":
			p := a.Malloc(o.N)
			copy(*p, pat(tag, len(*p)))
			live[o.Slot] = &buf{p: p, shadow: append([]byte(nil), (*p)...)}
			ev["len"] = len(*p)
		case "append", "appendstr":
			b := live[o.Slot]
			more := pat(tag, o.N)
			old := b.p
			var p *[]byte
			if o.K == "append" {
				p = a.Append(b.p, more...)
			} else {
				p = a.AppendString(b.p, string(more))
			}
			if p != old || (len(*p) > 0 && len(b.shadow) > 0 && &(*p)[0] != &b.shadow[0]) {
				moved = moved || p != old
			}
			b.p = p
			b.shadow = append(b.shadow, more...)
			ev["len"] = len(*p)
			ev["content"] = bytes.Equal(*p, b.shadow)
		case "realloc":
			b := live[o.Slot]
			oldLen := len(*b.p)
			old := b.p
			p := a.Realloc(b.p, o.N)
			if p != old {
				moved = true
			}
			b.p = p
			ev["len"] = len(*p)
			keep := oldLen
			if o.N < keep {
				keep = o.N
			}
			ok := len(*p) >= keep && bytes.Equal((*p)[:keep], b.shadow[:keep])
			if len(*p) > keep { // the extension is unspecified: fill it
				copy((*p)[keep:], pat(tag, len(*p)-keep))
			}
			b.shadow = append([]byte(nil), (*p)...)
			ev["content"] = ok
		case "free":
			b := live[o.Slot]
			a.Free(b.p)
			delete(live, o.Slot)
		}
		// every other live buffer intact; memory ranges pairwise disjoint
		others, disjoint := true, true
		type rng struct{ lo, hi uintptr }
		var rs []rng
		for s, b := range live {
			if s != o.Slot && !bytes.Equal(*b.p, b.shadow) {
				others = false
			}
			if cap(*b.p) > 0 {
				full := (*b.p)[:cap(*b.p)]
				lo := uintptr(unsafe.Pointer(&full[0]))
				rs = append(rs, rng{lo, lo + uintptr(cap(*b.p))})
			}
		}
		for x := 0; x < len(rs); x++ {
			for y := x + 1; y < len(rs); y++ {
				if rs[x].lo < rs[y].hi && rs[y].lo < rs[x].hi {
					disjoint = false
				}
			}
		}
		ev["others"] = others
		ev["disjoint"] = disjoint
		tr.Emit(ev)
	}
	return moved
}

func main() {
	in := flag.String("programs", "", "")
	out := flag.String("trace", "", "")
	par := flag.Int("par", 1, "")
	force := flag.String("force", "", "run every program on this allocator")
	reps := flag.Int("reps", 1, "")
	flag.Parse()
	var progs []prog
	err := hlib.ReadLines(*in, func(b []byte) error {
		var p prog
		if err := json.Unmarshal(b, &p); err != nil {
			return err
		}
		progs = append(progs, p)
		return nil
	})
	if err != nil {
		hlib.Fatal("%v", err)
	}
	if *force != "" || *reps > 1 {
		base := progs
		progs = nil
		for r := 0; r < *reps; r++ {
			for _, p := range base {
				q := p
				if *force != "" {
					q.Alloc = *force
				}
				q.ID = fmt.Sprintf("%s@%s.%d", p.ID, q.Alloc, r)
				progs = append(progs, q)
			}
		}
	}
	allocs := map[string]mempool.Allocator{"pool": mempool.New(64, 64*1024), "aligned": mempool.NewAligned(), "std": mempool.NewSTD(),
		"default": mempool.DefaultMemPool}
	nontrivial := 0
	if *par <= 1 {
		tr, err := hlib.NewTrace(*out)
		if err != nil {
			hlib.Fatal("%v", err)
		}
		for i := range progs {
			if runProg(allocs[progs[i].Alloc], &progs[i], tr, false) {
				nontrivial++
			}
		}
		tr.Close()
	} else {
		// N goroutines, each with its own trace file (a trace is one goroutine's sequential view)
		var wg sync.WaitGroup
		var mu sync.Mutex
		for g := 0; g < *par; g++ {
			wg.Add(1)
			go func(g int) {
				defer wg.Done()
				tr, err := hlib.NewTrace(fmt.Sprintf("%s.%d", *out, g))
				if err != nil {
					hlib.Fatal("%v", err)
				}
				n := 0
				for i := g; i < len(progs); i += *par {
					if runProg(allocs[progs[i].Alloc], &progs[i], tr, true) {
						n++
					}
				}
				tr.Close()
				mu.Lock()
				nontrivial += n
				mu.Unlock()
			}(g)
		}
		wg.Wait()
		f, _ := os.Create(*out)
		for g := 0; g < *par; g++ {
			b, _ := os.ReadFile(fmt.Sprintf("%s.%d", *out, g))
			f.Write(b)
		}
		f.Close()
	}
	fmt.Printf("{\"programs\": %d, \"nontrivial\": %d}\n", len(progs), nontrivial)
}
