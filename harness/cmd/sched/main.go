// Command sched replays TLA+ behaviours of HeadDrain.tla on the real code under the cooperative
// scheduler (direction G, DESIGN.md 2.2):
//
//	variant "conn"  : nbio.Conn.Execute / MustExecute / Close   (C05)
//	variant "async" : timer.Timer.Async                         (C19, FIFO clause)
//
// Input: one JSON script per line; output: an ndjson trace of observable events (validated by TLC
// against FifoMonTrace) and a JSON summary on stdout.
package main

import (
	"encoding/json"
	"flag"
	"fmt"
	"os"
	"strconv"
	"sync"
	"sync/atomic"
	"time"

	"github.com/lesismal/nbio"
	"github.com/lesismal/nbio/logging"
	"github.com/lesismal/nbio/timer"
	"github.com/lesismal/nbio/zzverif/vrt"

	"verifharness/hlib"
)

type step struct {
	T string         `json:"t"`
	A string         `json:"a"`
	X map[string]int `json:"x"`
	E bool           `json:"e"` // eager: also run the code that follows the step's last Unlock
	// arrive only: the thread runs up to its next real yield point (typically the Lock of its critical section) and
	// parks there WITHOUT being granted it, so that whatever the code does before taking the lock happens early
	Arr bool `json:"arr"`
}

type script struct {
	ID       string              `json:"id"`
	Variant  string              `json:"variant"`
	Executor string              `json:"executor"`
	Subs     map[string][]string `json:"subs"`
	Order    []string            `json:"order"`
	Close    bool                `json:"close"`
	Panic    map[string]bool     `json:"panic"`
	Steps    []step              `json:"steps"`
	Arrive   bool                `json:"arrive"` // the script contains arrive-only steps: calls overlap (not linearized)
}

type summary struct {
	Scripts    int      `json:"scripts"`
	Steps      int      `json:"steps"`
	Drift      int      `json:"drift"`
	DriftAt    []string `json:"drift_at"`
	Stuck      int      `json:"stuck"`
	Interleave int      `json:"interleaved"` // scripts in which >= 2 threads alternated inside the protocol
}

var tr *hlib.Trace

func main() {
	in := flag.String("scripts", "", "")
	out := flag.String("trace", "", "")
	flag.Parse()
	logging.SetLevel(logging.LevelNone)
	var err error
	tr, err = hlib.NewTrace(*out)
	if err != nil {
		hlib.Fatal("%v", err)
	}
	g := nbio.NewEngine(nbio.Config{NPoller: 1})
	if err := g.Start(); err != nil {
		hlib.Fatal("engine start: %v", err)
	}
	var sum summary
	err = hlib.ReadLines(*in, func(b []byte) error {
		var sc script
		if err := json.Unmarshal(b, &sc); err != nil {
			return err
		}
		runScript(g, &sc, &sum)
		return nil
	})
	if err != nil {
		hlib.Fatal("%v", err)
	}
	vrt.Install(nil)
	done := make(chan struct{})
	go func() { g.Stop(); close(done) }()
	select {
	case <-done:
	case <-time.After(10 * time.Second):
	}
	if err := tr.Close(); err != nil {
		hlib.Fatal("%v", err)
	}
	b, _ := json.Marshal(sum)
	fmt.Println(string(b))
	os.Exit(0)
}

func runScript(g *nbio.Engine, sc *script, sum *summary) {
	sum.Scripts++
	tr.Emit(hlib.Ev{"ev": "reset", "id": sc.ID})
	s := vrt.New()
	s.Watchdog = 5 * time.Second
	libn := 0
	s.SpawnName = func(n int) string { libn++; return "lib" + strconv.Itoa(libn) }
	vrt.Install(s)
	defer vrt.Install(nil)

	var c *nbio.Conn
	var tm *timer.Timer
	var peer interface{ Close() error }
	lin := !sc.Arrive
	execn := 0
	if sc.Variant == "conn" {
		a, b, err := hlib.UnixPair()
		if err != nil {
			hlib.Fatal("socketpair: %v", err)
		}
		peer = b
		switch sc.Executor {
		case "inline":
			g.Execute = func(f func()) { f() }
		case "go":
			g.Execute = func(f func()) {
				if t := vrt.Cur(); t != nil {
					t.Yield(vrt.Op{Kind: "go", Tag: "executor"})
					execn++
					s.Spawn("g"+strconv.Itoa(execn), f)
					return
				}
				go f()
			}
		}
		// AddConn runs on this (unmanaged) goroutine: every shimmed operation passes through
		c, err = g.AddConn(a)
		if err != nil {
			hlib.Fatal("AddConn: %v", err)
		}
	} else {
		tm = timer.New("verif")
	}

	var nAccepted, nEnded int32
	mkJob := func(id string) func() {
		return func() {
			vrt.Yield("js")
			tr.Emit(hlib.Ev{"ev": "start", "j": id})
			vrt.Yield("je")
			tr.Emit(hlib.Ev{"ev": "end", "j": id})
			atomic.AddInt32(&nEnded, 1)
			if sc.Panic[id] {
				panic("verif: job " + id + " panics")
			}
		}
	}
	names := sc.Order
	for _, name := range names {
		name := name
		prog := sc.Subs[name]
		s.Spawn(name, func() {
			for k, kind := range prog {
				id := name + "." + strconv.Itoa(k+1)
				vrt.YieldT("op")
				if sc.Variant == "async" {
					tr.Emit(hlib.Ev{"ev": "call", "j": id, "kind": "must", "lin": lin})
					tm.Async(mkJob(id))
					tr.Emit(hlib.Ev{"ev": "ret", "j": id, "ok": true})
					atomic.AddInt32(&nAccepted, 1)
					continue
				}
				tr.Emit(hlib.Ev{"ev": "call", "j": id, "kind": kind, "lin": lin})
				ok := true
				if kind == "must" {
					c.MustExecute(mkJob(id))
				} else {
					ok = c.Execute(mkJob(id))
				}
				tr.Emit(hlib.Ev{"ev": "ret", "j": id, "ok": ok})
				if ok {
					atomic.AddInt32(&nAccepted, 1)
				}
			}
		})
	}
	if sc.Close && sc.Variant == "conn" {
		s.Spawn("closer", func() {
			vrt.YieldT("op")
			tr.Emit(hlib.Ev{"ev": "closecall"})
			_ = c.Close()
			tr.Emit(hlib.Ev{"ev": "closeret"})
		})
	}

	last := ""
	switches := 0
	stuck := false
	for i, st := range sc.Steps {
		sum.Steps++
		if st.Arr {
			if err := s.PassAllTransparent(st.T); err != nil {
				stuck = true
				break
			}
			continue
		}
		_, err := s.Step(st.T)
		if err != nil {
			if _, ok := err.(vrt.ErrStuck); ok {
				stuck = true
				break
			}
			sum.Drift++
			if len(sum.DriftAt) < 5 {
				sum.DriftAt = append(sum.DriftAt, fmt.Sprintf("%s step %d (%s %s): %v", sc.ID, i, st.T, st.A, err))
			}
			continue
		}
		if st.E {
			if err := s.PassTransparent(st.T); err != nil {
				stuck = true
				break
			}
		}
		if last != "" && last != st.T {
			switches++
		}
		last = st.T
		if want, ok := st.X["len"]; ok && c != nil {
			if got := nbio.VerifJobListLen(c); got != want {
				sum.Drift++
				if len(sum.DriftAt) < 5 {
					sum.DriftAt = append(sum.DriftAt, fmt.Sprintf("%s step %d (%s %s): len(jobList)=%d, model %d", sc.ID, i, st.T, st.A, got, want))
				}
			}
		}
	}
	if switches >= 2 {
		sum.Interleave++
	}
	if !stuck {
		if _, err := s.RunToQuiescence(10000, nil); err != nil {
			stuck = true
		}
	}
	quiet := !stuck && s.AllExited()
	vrt.Install(nil)
	panicked := false
	for _, name := range s.Threads() {
		if t := s.Thread(name); t.Panic != nil {
			// a panic that escapes a library goroutine would crash the process
			panicked = true
			tr.Emit(hlib.Ev{"ev": "panic", "thr": name, "msg": fmt.Sprint(t.Panic)})
		}
	}
	if panicked {
		s.Abandon()
		if peer != nil {
			_ = peer.Close()
		}
		return
	}
	if !quiet {
		sum.Stuck++
		s.Abandon()
		tr.Emit(hlib.Ev{"ev": "stuck"})
	} else {
		tr.Emit(hlib.Ev{"ev": "quiesce"})
		if atomic.LoadInt32(&nAccepted) != atomic.LoadInt32(&nEnded) {
			// the monitor rejects this scenario at the quiesce event; no probe needed
			if peer != nil {
				_ = peer.Close()
			}
			return
		}
		// R3 probe: the hand-over protocol must still work: one more job must run
		var wg sync.WaitGroup
		wg.Add(1)
		probe := func() {
			tr.Emit(hlib.Ev{"ev": "start", "j": "probe.1"})
			tr.Emit(hlib.Ev{"ev": "end", "j": "probe.1"})
			wg.Done()
		}
		tr.Emit(hlib.Ev{"ev": "call", "j": "probe.1", "kind": "must", "lin": true})
		if sc.Variant == "async" {
			tm.Async(probe)
		} else {
			c.MustExecute(probe)
		}
		tr.Emit(hlib.Ev{"ev": "ret", "j": "probe.1", "ok": true})
		ch := make(chan struct{})
		go func() { wg.Wait(); close(ch) }()
		select {
		case <-ch:
		case <-time.After(3 * time.Second):
		}
		tr.Emit(hlib.Ev{"ev": "quiesce"})
	}
	if c != nil {
		_ = c.Close()
	}
	if peer != nil {
		_ = peer.Close()
	}
}
