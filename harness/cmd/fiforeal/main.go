// Command fiforeal is the free-running leg (direction V) of C05: many goroutines submit jobs to
// real connections through Execute / MustExecute under the Go scheduler with three executors
// (inline, goroutine per call, bounded task pool), a closer races on some connections, and the
// observable events are recorded for validation by TLC against FifoMonTrace (lin = false: only
// real-time order of calls is claimed).
package main

import (
	"encoding/json"
	"flag"
	"fmt"
	"math/rand"
	"os"
	"runtime"
	"strconv"
	"sync"
	"sync/atomic"
	"time"

	"github.com/lesismal/nbio"
	"github.com/lesismal/nbio/logging"
	"github.com/lesismal/nbio/taskpool"

	"verifharness/hlib"
)

type scen struct {
	ID       string `json:"id"`
	Executor string `json:"executor"`
	Subs     int    `json:"subs"`
	Jobs     int    `json:"jobs"`
	Close    bool   `json:"close"`
	Procs    int    `json:"gomaxprocs"`
	Seed     int64  `json:"seed"`
	Variant  string `json:"variant"`
}

type summary struct {
	Scenarios []scen `json:"scenarios"`
	Jobs      int    `json:"jobs"`
	Contended int    `json:"contended"`
}

var tr *hlib.Trace

func main() {
	out := flag.String("trace", "", "")
	seed := flag.Int64("seed", 1, "")
	conns := flag.Int("conns", 12, "")
	subs := flag.Int("subs", 8, "")
	jobs := flag.Int("jobs", 20, "")
	only := flag.String("only", "", "")
	flag.Parse()
	logging.SetLevel(logging.LevelNone)
	var err error
	tr, err = hlib.NewTrace(*out)
	if err != nil {
		hlib.Fatal("%v", err)
	}
	var sum summary
	var list []scen
	if *only != "" {
		var s scen
		if err := json.Unmarshal([]byte(*only), &s); err != nil {
			hlib.Fatal("bad -only: %v", err)
		}
		list = []scen{s}
	} else {
		rnd := rand.New(rand.NewSource(*seed))
		execs := []string{"inline", "go", "pool"}
		procs := []int{1, 4, 16}
		for i := 0; i < *conns; i++ {
			list = append(list, scen{ID: "real#" + strconv.Itoa(i), Executor: execs[i%3], Subs: *subs, Jobs: *jobs,
				Close: rnd.Intn(3) == 0, Procs: procs[(i/3)%3], Seed: rnd.Int63(), Variant: "conn"})
		}
	}
	for _, s := range list {
		runScen(s, &sum)
	}
	if err := tr.Close(); err != nil {
		hlib.Fatal("%v", err)
	}
	b, _ := json.Marshal(sum)
	fmt.Println(string(b))
	os.Exit(0)
}

func runScen(s scen, sum *summary) {
	old := runtime.GOMAXPROCS(s.Procs)
	defer runtime.GOMAXPROCS(old)
	g := nbio.NewEngine(nbio.Config{NPoller: 1})
	var pool *taskpool.TaskPool
	switch s.Executor {
	case "inline":
	case "go":
		g.Execute = func(f func()) { go f() }
	case "pool":
		pool = taskpool.New(4, 1024)
		g.Execute = pool.Go
	}
	if err := g.Start(); err != nil {
		hlib.Fatal("start: %v", err)
	}
	a, b, err := hlib.UnixPair()
	if err != nil {
		hlib.Fatal("socketpair: %v", err)
	}
	c, err := g.AddConn(a)
	if err != nil {
		hlib.Fatal("AddConn: %v", err)
	}
	tr.Emit(hlib.Ev{"ev": "reset", "id": s.ID})
	sum.Scenarios = append(sum.Scenarios, s)
	var wg sync.WaitGroup
	var running int32
	var contended int32
	var jobsDone sync.WaitGroup
	rnd := rand.New(rand.NewSource(s.Seed))
	panicAt := rnd.Intn(s.Subs * s.Jobs)
	closeAfter := time.Duration(rnd.Intn(300)) * time.Microsecond
	start := make(chan struct{})
	for si := 0; si < s.Subs; si++ {
		si := si
		r := rand.New(rand.NewSource(s.Seed + int64(si)*7919))
		wg.Add(1)
		go func() {
			defer wg.Done()
			<-start
			for k := 0; k < s.Jobs; k++ {
				id := "s" + strconv.Itoa(si) + "." + strconv.Itoa(k+1)
				must := r.Intn(4) == 0
				spin := r.Intn(3)
				doPanic := si*s.Jobs+k == panicAt
				jobsDone.Add(1)
				job := func() {
					tr.Emit(hlib.Ev{"ev": "start", "j": id})
					if atomic.AddInt32(&running, 1) > 1 {
						atomic.StoreInt32(&contended, 1)
					}
					for x := 0; x < spin; x++ {
						runtime.Gosched()
					}
					if c.ExecuteLen() > 1 {
						atomic.StoreInt32(&contended, 1)
					}
					atomic.AddInt32(&running, -1)
					tr.Emit(hlib.Ev{"ev": "end", "j": id})
					jobsDone.Done()
					if doPanic {
						panic("verif: job panics")
					}
				}
				kind := "exec"
				if must {
					kind = "must"
				}
				tr.Emit(hlib.Ev{"ev": "call", "j": id, "kind": kind, "lin": false})
				ok := true
				if must {
					c.MustExecute(job)
				} else {
					ok = c.Execute(job)
				}
				tr.Emit(hlib.Ev{"ev": "ret", "j": id, "ok": ok})
				if !ok {
					jobsDone.Done()
				}
				if r.Intn(4) == 0 {
					runtime.Gosched()
				}
			}
		}()
	}
	if s.Close {
		wg.Add(1)
		go func() {
			defer wg.Done()
			<-start
			time.Sleep(closeAfter)
			tr.Emit(hlib.Ev{"ev": "closecall"})
			_ = c.Close()
			tr.Emit(hlib.Ev{"ev": "closeret"})
		}()
	}
	close(start)
	wg.Wait()
	// all calls returned; wait (bounded) for the executor to go idle
	done := make(chan struct{})
	go func() { jobsDone.Wait(); close(done) }()
	select {
	case <-done:
	case <-time.After(5 * time.Second):
	}
	sum.Jobs += s.Subs * s.Jobs
	if contended != 0 {
		sum.Contended++
	}
	tr.Emit(hlib.Ev{"ev": "quiesce"})
	_ = c.Close()
	_ = b.Close()
	stopped := make(chan struct{})
	go func() { g.Stop(); close(stopped) }()
	select {
	case <-stopped:
	case <-time.After(10 * time.Second):
	}
	if pool != nil {
		pool.Stop()
	}
}
