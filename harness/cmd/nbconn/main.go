// Command nbconn replays behaviours of NbConn.tla on the real nbio.Conn / poller running against
// the model kernel (package vsys) under the cooperative scheduler (package vrt), and records the
// observable events for validation by TLC against StreamMonTrace (C01, C04, C17).
package main

import (
	"encoding/json"
	"errors"
	"flag"
	"fmt"
	"io"
	"net"
	"os"
	"strings"
	"syscall"
	"time"

	"github.com/lesismal/nbio"
	"github.com/lesismal/nbio/logging"
	"github.com/lesismal/nbio/mempool"
	"github.com/lesismal/nbio/zzverif/vrt"
	"github.com/lesismal/nbio/zzverif/vsys"

	"verifharness/hlib"
)

type op struct {
	Op string `json:"op"` // write | writev | sendfile
	N  int    `json:"n"`
	Ns []int  `json:"ns"`
}

type step struct {
	T    string         `json:"t"`
	Env  string         `json:"env"`
	M    int            `json:"m"`
	Pass bool           `json:"pass"`
	L    bool           `json:"l"` // lazy: park the thread right after its syscall returned
	E    bool           `json:"e"`
	A    string         `json:"a"`
	X    map[string]int `json:"x"`
}

type script struct {
	ID        string          `json:"id"`
	Focus     string          `json:"focus"`
	Mode      string          `json:"mode"`
	Transport string          `json:"transport"`
	SndCap    int             `json:"sndcap"`
	MaxWB     int             `json:"maxwb"`
	RdBuf     int             `json:"rdbuf"`
	MaxRead   int             `json:"maxread"`
	Threads   map[string][]op `json:"threads"`
	Order     []string        `json:"order"`
	Steps     []step          `json:"steps"`
	Eager     bool            `json:"eager"`
	Alloc     string          `json:"alloc"`
	Async     bool            `json:"async"` // AsyncReadInPoller with a managed executor (C02 gate replay)
}

type summary struct {
	Scripts    int      `json:"scripts"`
	Steps      int      `json:"steps"`
	Drift      int      `json:"drift"`
	DriftAt    []string `json:"drift_at"`
	Stuck      int      `json:"stuck"`
	Nontrivial int      `json:"nontrivial"`
	Next       int      `json:"next"` // index of the next script to run (restart after a damaged scenario)
	Partial    int      `json:"partial_writes"`
}

var tr *hlib.Trace
var tmpdir string
var debug = os.Getenv("VERIF_DEBUG") != ""

func main() {
	in := flag.String("scripts", "", "")
	out := flag.String("trace", "", "")
	skip := flag.Int("skip", 0, "")
	flag.Parse()
	logging.SetLevel(logging.LevelNone)
	var err error
	tr, err = hlib.NewTrace(*out)
	if err != nil {
		hlib.Fatal("%v", err)
	}
	tmpdir, _ = os.MkdirTemp("", "nbconn")
	defer os.RemoveAll(tmpdir)
	var sum summary
	idx := 0
	damaged := false
	err = hlib.ReadLines(*in, func(b []byte) error {
		idx++
		if idx <= *skip || damaged {
			return nil
		}
		var sc script
		if err := json.Unmarshal(b, &sc); err != nil {
			return err
		}
		if !runScript(&sc, &sum) {
			damaged = true // process state is suspect: let the orchestrator restart us after this script
		}
		sum.Next = idx
		return nil
	})
	if err != nil {
		hlib.Fatal("%v", err)
	}
	if !damaged {
		sum.Next = -1
	}
	if err := tr.Close(); err != nil {
		hlib.Fatal("%v", err)
	}
	os.RemoveAll(tmpdir)
	b, _ := json.Marshal(sum)
	fmt.Println(string(b))
	os.Exit(0)
}

func inByte(off int) byte { return byte(off*7 + 3) }

func causeName(err error) string {
	switch {
	case err == nil:
		return "nil"
	case errors.Is(err, io.EOF):
		return "eof"
	case errors.Is(err, syscall.EPIPE):
		return "werr"
	case strings.Contains(err.Error(), "overflow"):
		return "overflow"
	}
	return err.Error()
}

func errName(err error) string {
	switch {
	case err == nil:
		return "nil"
	case errors.Is(err, net.ErrClosed):
		return "closed"
	case strings.Contains(err.Error(), "overflow"):
		return "overflow"
	}
	return "other"
}

func runScript(sc *script, sum *summary) (clean bool) {
	sum.Scripts++
	lin := true
	tr.Emit(hlib.Ev{"ev": "reset", "id": sc.ID, "focus": sc.Focus, "maxwb": sc.MaxWB, "lin": lin, "sim": true})
	vsys.Reset(true)
	s := vrt.New()
	s.Watchdog = 5 * time.Second
	libn := 0
	s.SpawnName = func(n int) string {
		libn++
		if libn == 1 {
			return "p"
		}
		return fmt.Sprintf("lib%d", libn)
	}
	vrt.Install(s)
	defer vrt.Install(nil)

	cfg := nbio.Config{NPoller: 1, ReadBufferSize: sc.RdBuf, MaxWriteBufferSize: sc.MaxWB, MaxConnReadTimesPerEventLoop: sc.MaxRead}
	if sc.Alloc == "std" {
		cfg.BodyAllocator = mempool.NewSTD() // exact capacities: every coalescing append re-allocates
	}
	switch sc.Mode {
	case "ET":
		cfg.EpollMod = nbio.EPOLLET
	case "OS":
		cfg.EpollMod = nbio.EPOLLET
		cfg.EPOLLONESHOT = nbio.EPOLLONESHOT
	}
	taskn := 0
	if sc.Async {
		cfg.AsyncReadInPoller = true
		cfg.IOExecute = func(f func(*[]byte)) {
			taskn++
			name := fmt.Sprintf("t%d", taskn)
			run := func() {
				buf := make([]byte, sc.RdBuf)
				f(&buf)
			}
			if t := vrt.Cur(); t != nil {
				t.Yield(vrt.Op{Kind: "go", Tag: "ioexecute"})
				s.Spawn(name, run)
				return
			}
			go run()
		}
	}
	g := nbio.NewEngine(cfg)
	dec := hlib.NewDecoder()
	nsid := 0
	partial := 0
	vsys.K.OnTake = func(fd int, p []byte, kind string) {
		for _, r := range dec.Decode(p) {
			tr.Emit(hlib.Ev{"ev": "take", "sid": r.Sid, "lo": r.Lo, "hi": r.Hi, "peer": false})
		}
	}
	vsys.K.OnSys = func(name string, fd, n int, e syscall.Errno) {
		if (name == "write" || name == "writev" || name == "sendfile") && e == syscall.EAGAIN {
			partial++
		}
	}
	defer func() { vsys.K.OnTake = nil; vsys.K.OnSys = nil }()

	var c *nbio.Conn
	doOps := func(name string, ops []op) {
		for _, o := range ops {
			vrt.YieldT("op")
			sid := nsid
			nsid++
			total := o.N
			if o.Op == "writev" {
				total = 0
				for _, x := range o.Ns {
					total += x
				}
			}
			if o.Op == "close" {
				nsid-- // not a stream
				tr.Emit(hlib.Ev{"ev": "closecall", "t": name, "c": name})
				_ = c.CloseWithError(errors.New(name))
				tr.Emit(hlib.Ev{"ev": "closeret", "t": name})
				continue
			}
			dec.AddStream(sid, total)
			tr.Emit(hlib.Ev{"ev": "call", "sid": sid, "op": o.Op, "n": total, "buf": o.Op != "sendfile", "t": name})
			var n int
			var err error
			switch o.Op {
			case "write":
				pb := hlib.Payload(sid, 0, o.N)
				n, err = c.Write(pb)
				for i := range pb {
					pb[i] = 0xEE // the caller reuses its buffer after the call
				}
			case "writev":
				var bs [][]byte
				off := 0
				for _, x := range o.Ns {
					bs = append(bs, hlib.Payload(sid, off, x))
					off += x
				}
				n, err = c.Writev(bs)
				for _, b := range bs {
					for i := range b {
						b[i] = 0xEE
					}
				}
			case "sendfile":
				f, ferr := os.CreateTemp(tmpdir, "sf")
				if ferr != nil {
					hlib.Fatal("tempfile: %v", ferr)
				}
				f.Write(hlib.Payload(sid, 0, o.N))
				f.Seek(0, 0)
				var n64 int64
				n64, err = c.Sendfile(f, int64(o.N))
				n = int(n64)
				f.Close()
				os.Remove(f.Name())
			}
			tr.Emit(hlib.Ev{"ev": "ret", "sid": sid, "n": n, "err": errName(err)})
		}
	}
	g.OnOpen(func(cc *nbio.Conn) {
		tr.Emit(hlib.Ev{"ev": "open"})
		doOps("o", sc.Threads["o"])
	})
	inDel := 4
	g.OnData(func(cc *nbio.Conn, data []byte) {
		if sc.Focus == "C02" {
			ok := true
			for i, b := range data {
				if b != inByte(inDel+i) {
					ok = false
				}
			}
			tr.Emit(hlib.Ev{"ev": "data", "c": 0, "lo": inDel, "hi": inDel + len(data), "ok": ok})
			inDel += len(data)
		}
	})
	oncloseCh := make(chan struct{}, 4)
	g.OnClose(func(cc *nbio.Conn, err error) {
		tr.Emit(hlib.Ev{"ev": "onclose", "err": causeName(err)})
		oncloseCh <- struct{}{}
	})
	if err := g.Start(); err != nil {
		hlib.Fatal("engine start: %v", err)
	}
	typ := nbio.ConnTypeTCP
	if sc.Transport == "unix" {
		typ = nbio.ConnTypeUnix
	}
	fd := vsys.NewSock(sc.SndCap)
	c = nbio.VerifNewConn(fd, typ)
	s.Spawn("o", func() {
		_ = nbio.VerifAddConn(g, c)
	})
	for _, name := range sc.Order {
		if name == "o" {
			continue
		}
		name := name
		ops := sc.Threads[name]
		s.Spawn(name, func() { doOps(name, ops) })
	}

	stuck := false
	inOff := 4
	lazyPending := map[string]bool{}
	threadsSeen := map[string]bool{}
	for i, st := range sc.Steps {
		sum.Steps++
		if st.Env != "" {
			switch st.Env {
			case "peerread":
				if got := vsys.PeerRead(fd, st.M); got != st.M {
					sum.Drift++
					drift(sum, sc, i, st, fmt.Sprintf("peer could read only %d of %d bytes", got, st.M))
				}
			case "peersend":
				b := make([]byte, st.M)
				for i := range b {
					b[i] = inByte(inOff + i)
				}
				inOff += st.M
				vsys.PeerSend(fd, b)
			case "eintr":
				vsys.InjectWrite(fd, syscall.EINTR)
			case "eagain":
				vsys.InjectWrite(fd, syscall.EAGAIN)
			case "epipe":
				vsys.InjectWrite(fd, syscall.EPIPE)
				tr.Emit(hlib.Ev{"ev": "cause", "c": "werr"})
			case "peerclose":
				vsys.PeerClose(fd)
				tr.Emit(hlib.Ev{"ev": "cause", "c": "eof"})
				tr.Emit(hlib.Ev{"ev": "cause", "c": "werr"}) // a write to the closed peer fails too
			}
		} else {
			var err error
			if st.Pass {
				err = s.PassTransparent(st.T)
			} else {
				vsys.LazyRet = st.L
				var gop vrt.Op
				gop, err = s.Step(st.T)
				if debug {
					nxt := ""
					if th := s.Thread(st.T); th != nil && !th.Exited() {
						nxt = th.Pending().String()
					}
					fmt.Fprintf(os.Stderr, "  step %d %s %-8s granted %-16s next %-16s err=%v\n", i, st.T, st.A, gop.String(), nxt, err)
				}
				if nr, ok := err.(vrt.ErrNotRunnable); ok && len(lazyPending) > 0 && strings.Contains(nr.Why, "lock") {
					// the lock is held by a thread parked lazily after its syscall: let it finish its step
					for name := range lazyPending {
						_ = s.PassTransparent(name)
						delete(lazyPending, name)
					}
					_, err = s.Step(st.T)
				}
				vsys.LazyRet = false
				if st.L {
					lazyPending[st.T] = true
				} else {
					delete(lazyPending, st.T)
				}
				if err == nil && !st.L && (st.E || sc.Eager || nbio.VerifState(c).Closed) {
					err = s.PassTransparent(st.T)
				}
			}
			if err != nil {
				if _, ok := err.(vrt.ErrStuck); ok {
					stuck = true
					break
				}
				sum.Drift++
				drift(sum, sc, i, st, err.Error())
				continue
			}
			threadsSeen[st.T] = true
		}
		if st.X != nil {
			checkState(sum, sc, i, st, c, fd, len(lazyPending) > 0)
		}
	}
	// ---- drain to quiescence: the peer keeps reading, every runnable thread runs ----
	if !stuck {
		maxSteps := 100000
		if sc.Focus == "C02" {
			maxSteps = 3000 // a reader that has not gone idle after 3000 steps without new input spins
		}
		for round := 0; round < 100000; round++ {
			n, err := s.RunToQuiescence(maxSteps, nil)
			if err != nil {
				stuck = true
				break
			}
			got := vsys.PeerRead(fd, 1<<30)
			if n == 0 && got == 0 {
				break
			}
		}
	}
	panicked := false
	for _, name := range s.Threads() {
		if t := s.Thread(name); t.Panic != nil {
			panicked = true
			tr.Emit(hlib.Ev{"ev": "panic", "thr": name, "msg": fmt.Sprint(t.Panic)})
		}
	}
	sum.Partial += partial
	if partial > 0 && len(threadsSeen) >= 2 {
		sum.Nontrivial++
	}
	if stuck || panicked {
		if stuck {
			sum.Stuck++
			tr.Emit(hlib.Ev{"ev": "stuck"})
		}
		vrt.Install(nil)
		s.Abandon()
		return false
	}
	st := nbio.VerifState(c)
	queued := 0
	for _, q := range st.Queue {
		if q < 0 {
			q = -q
		}
		queued += int(q)
	}
	closed, _ := c.IsClosed()
	if closed {
		// the close notification travels through the engine's asynchronous queue: wait for it (bounded)
		select {
		case <-oncloseCh:
		case <-time.After(3 * time.Second):
		}
	}
	if sc.Focus == "C03" {
		if vsys.State(fd).Closes == 0 && !closed && vsys.State(fd).Kbuf >= 0 {
			// a probe while the connection is open must not be refused (sanity)
		}
		if closed {
			// R3 probes: after Close has returned every operation fails with the closed indication
			vrt.Install(nil)
			for _, kind := range []string{"write", "writev", "sendfile", "execute"} {
				sid := nsid
				nsid++
				switch kind {
				case "write":
					tr.Emit(hlib.Ev{"ev": "call", "sid": sid, "op": kind, "n": 3, "buf": true, "t": "probe"})
					n, err := c.Write([]byte("abc"))
					tr.Emit(hlib.Ev{"ev": "ret", "sid": sid, "n": n, "err": errName(err)})
				case "writev":
					tr.Emit(hlib.Ev{"ev": "call", "sid": sid, "op": kind, "n": 4, "buf": true, "t": "probe"})
					n, err := c.Writev([][]byte{[]byte("ab"), []byte("cd")})
					tr.Emit(hlib.Ev{"ev": "ret", "sid": sid, "n": n, "err": errName(err)})
				case "sendfile":
					f, ferr := os.CreateTemp(tmpdir, "sfp")
					if ferr == nil {
						f.Write([]byte("hello"))
						f.Seek(0, 0)
						tr.Emit(hlib.Ev{"ev": "call", "sid": sid, "op": kind, "n": 5, "buf": false, "t": "probe"})
						n, err := c.Sendfile(f, 5)
						tr.Emit(hlib.Ev{"ev": "ret", "sid": sid, "n": int(n), "err": errName(err)})
						f.Close()
						os.Remove(f.Name())
					}
				case "execute":
					ok := c.Execute(func() {})
					tr.Emit(hlib.Ev{"ev": "exec", "ok": ok})
				}
			}
			vrt.Install(s)
		}
	}
	if sc.Focus == "C02" {
		tr.Emit(hlib.Ev{"ev": "sent", "c": 0, "n": inOff})
	}
	ks := vsys.State(fd)
	tr.Emit(hlib.Ev{"ev": "quiesce", "open": !closed, "closed": closed, "queued": queued, "kbuf": ks.Kbuf,
		"fdcloses": ks.Closes, "badsys": len(vsys.BadSyscalls())})

	// ---- stop the engine (its goroutines are managed: keep stepping while Stop runs) ----
	done := make(chan struct{})
	go func() { g.Stop(); close(done) }()
	deadline := time.Now().Add(10 * time.Second)
	for {
		select {
		case <-done:
			return true
		default:
		}
		if _, err := s.RunToQuiescence(100000, nil); err != nil {
			return false
		}
		if time.Now().After(deadline) {
			tr.Emit(hlib.Ev{"ev": "note", "msg": "engine Stop did not return"})
			vrt.Install(nil)
			s.Abandon()
			return false
		}
		time.Sleep(20 * time.Microsecond)
	}
}

func drift(sum *summary, sc *script, i int, st step, msg string) {
	if len(sum.DriftAt) < 8 {
		sum.DriftAt = append(sum.DriftAt, fmt.Sprintf("%s step %d (%s%s %s): %s", sc.ID, i, st.T, st.Env, st.A, msg))
	}
}

func checkState(sum *summary, sc *script, i int, st step, c *nbio.Conn, fd int, kernelOnly bool) {
	cs := nbio.VerifState(c)
	ks := vsys.State(fd)
	bad := ""
	cmp := func(k string, got int) {
		if want, ok := st.X[k]; ok && want != got && bad == "" {
			bad = fmt.Sprintf("%s: real %d, model %d", k, got, want)
		}
	}
	b2i := func(b bool) int {
		if b {
			return 1
		}
		return 0
	}
	if !cs.Closed && !kernelOnly {
		q := 0
		for _, x := range cs.Queue {
			if x < 0 {
				x = -x
			}
			q += int(x)
		}
		cmp("queued", q)
		cmp("qlen", len(cs.Queue))
		cmp("left", cs.Left)
		cmp("wadded", b2i(cs.IsWAdded))
	}
	if !kernelOnly {
		cmp("closed", b2i(cs.Closed))
	}
	cmp("kfill", ks.Kbuf)
	cmp("nospace", b2i(ks.Nospace))
	if ks.Reg {
		cmp("reg_out", b2i(ks.Events&syscall.EPOLLOUT != 0))
		cmp("dis", b2i(ks.Disabled))
	}
	cmp("reg_on", b2i(ks.Reg))
	cmp("fdcloses", ks.Closes)
	if bad != "" {
		sum.Drift++
		drift(sum, sc, i, st, bad)
	}
}
