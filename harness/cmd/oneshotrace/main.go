// Command oneshotrace demonstrates (and the C02 matrix scenario "writeduring" re-checks) that in EPOLLET|EPOLLONESHOT mode with
// AsyncReadInPoller a Write that leaves a backlog re-arms the descriptor (epoll_ctl MOD) while a read job is still running,
// so that a reading event starts a second read job for the same connection: data callbacks overlap.
package main

import (
	"fmt"
	"net"
	"os"
	"sync/atomic"
	"time"

	"github.com/lesismal/nbio"
	"github.com/lesismal/nbio/logging"
)

func main() {
	logging.SetLevel(logging.LevelNone)
	g := nbio.NewEngine(nbio.Config{Network: "tcp", Addrs: []string{"127.0.0.1:0"}, NPoller: 1, EpollMod: nbio.EPOLLET,
		EPOLLONESHOT: nbio.EPOLLONESHOT, AsyncReadInPoller: true, ReadBufferSize: 1024})
	var in, overlaps, calls int32
	connCh := make(chan *nbio.Conn, 1)
	g.OnOpen(func(c *nbio.Conn) { connCh <- c })
	g.OnData(func(c *nbio.Conn, d []byte) {
		if atomic.AddInt32(&in, 1) > 1 {
			atomic.AddInt32(&overlaps, 1)
		}
		if atomic.AddInt32(&calls, 1) == 1 {
			time.Sleep(300 * time.Millisecond) // the first callback is slow
		}
		atomic.AddInt32(&in, -1)
	})
	if err := g.Start(); err != nil {
		panic(err)
	}
	defer g.Stop()
	p, err := net.Dial("tcp", g.Addrs[0])
	if err != nil {
		panic(err)
	}
	defer p.Close()
	c := <-connCh
	p.Write([]byte("first"))
	time.Sleep(50 * time.Millisecond) // the read job is inside the slow callback now
	c.Write(make([]byte, 16<<20))     // the peer does not read: a backlog, modWrite re-arms the fd
	p.Write([]byte("second"))         // readable again while the first job is still running
	time.Sleep(600 * time.Millisecond)
	fmt.Printf("callbacks=%d overlapping=%d\n", atomic.LoadInt32(&calls), atomic.LoadInt32(&overlaps))
	if atomic.LoadInt32(&overlaps) > 0 {
		os.Exit(1)
	}
}
