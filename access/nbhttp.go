//go:build verif
// +build verif

// Overlay-added accessor file (never present in /repo): read-only projections of private state of
// package nbhttp used for measurements the public API does not expose.
package nbhttp

// VerifParserRetained returns the number of unparsed bytes the parser keeps for the next call.
func VerifParserRetained(p *Parser) int {
	if p.bytesCached == nil {
		return 0
	}
	return len(*p.bytesCached)
}
