//go:build verif
// +build verif

// Overlay-added accessor file (never present in /repo): read-only projections of private state of
// package nbio for conformance (drift) measurements and diagnosis, and constructors the public API
// lacks.  Verdicts never depend on these (DESIGN.md R1-R3).
package nbio

// VerifJobListLen returns len(c.jobList) WITHOUT taking the lock (all library threads are parked
// when the cooperative scheduler's driver calls it).
func VerifJobListLen(c *Conn) int { return len(c.jobList) }

// VerifConnState is a snapshot of the write-path state of a connection.
type VerifConnState struct {
	Left     int
	Queue    []int64 // remaining bytes of each write-list entry (negative: file entry)
	IsWAdded bool
	Closed   bool
	Fd       int
}

// VerifState returns the write-path state WITHOUT taking the lock.
func VerifState(c *Conn) VerifConnState {
	s := VerifConnState{Left: c.left, IsWAdded: c.isWAdded, Closed: c.closed, Fd: c.fd}
	for _, t := range c.writeList {
		if t == nil {
			continue
		}
		if t.buf != nil {
			s.Queue = append(s.Queue, int64(len(*t.buf))-t.offset)
		} else {
			s.Queue = append(s.Queue, -t.remain)
		}
	}
	return s
}

// VerifNewConn builds a Conn around an existing descriptor (used with the model kernel, whose
// descriptors are not real sockets).
func VerifNewConn(fd int, typ ConnType) *Conn {
	return &Conn{fd: fd, typ: typ}
}

// VerifAddConn registers c with the engine's poller exactly as Engine.AddConn does after NBConn.
func VerifAddConn(g *Engine, c *Conn) error {
	p := g.pollers[c.Hash()%len(g.pollers)]
	return p.addConn(c)
}

// VerifReadEvents returns the async-read gate counter.
func VerifReadEvents(c *Conn) int32 { return c.readEvents }

// VerifMuxName labels the connection mutex for scheduler traces (only with the vsync shim).
func VerifFd(c *Conn) int { return c.fd }

// VerifRegistered returns how many connections are in the engine's table.
func VerifRegistered(g *Engine) int {
	n := 0
	for _, c := range g.connsUnix {
		if c != nil {
			n++
		}
	}
	return n
}
