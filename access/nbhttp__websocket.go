//go:build verif
// +build verif

// Overlay-added accessor file (never present in /repo).
package websocket

// VerifCached returns the number of unparsed input bytes the connection keeps.
func VerifCached(c *Conn) int {
	c.mux.Lock()
	defer c.mux.Unlock()
	if c.bytesCached == nil {
		return 0
	}
	return len(*c.bytesCached)
}
