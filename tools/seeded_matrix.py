#!/usr/bin/env python3
"""For every seeded change under /verif/seeded: apply it to /repo (patch_head.diff when present, else patch.diff), run the quick
check of its property, undo it (git checkout), and record in meta.json whether and how the check reported it.
usage: tools/seeded_matrix.py [ids...]   (never run while another check is using /repo)"""
import json, os, re, subprocess, sys, time
V = os.path.dirname(os.path.dirname(os.path.abspath(__file__)))
REPO = "/repo"
env = dict(os.environ, GOFLAGS="-mod=mod", GOPROXY="off", GOSUMDB="off", GOTOOLCHAIN="local")


def sh(cmd, **kw):
    return subprocess.run(cmd, shell=True, text=True, stdout=subprocess.PIPE, stderr=subprocess.STDOUT, env=env, **kw)


def main():
    ids = sys.argv[1:] or sorted(os.listdir(os.path.join(V, "seeded")))
    head = sh("git -C %s rev-parse --short HEAD" % REPO).stdout.strip()
    for sid in ids:
        d = os.path.join(V, "seeded", sid)
        mp = os.path.join(d, "meta.json")
        if not os.path.exists(mp):
            continue
        meta = json.load(open(mp))
        if sh("git -C %s status --short" % REPO).stdout.strip():
            print("repo dirty, stop")
            return 3
        patch = os.path.join(d, "patch_head.diff")
        if not os.path.exists(patch):
            patch = os.path.join(d, "patch.diff")
        det = {"tree": head, "patch": os.path.basename(patch)}
        r = sh("git -C %s apply %s" % (REPO, patch))
        if r.returncode != 0:
            # the lines around the change were touched by a later repair: three-way merge against the blobs the patch names
            r = sh("git -C %s apply --3way %s" % (REPO, patch))
            sh("git -C %s reset -q" % REPO)
            if r.returncode != 0 or "<<<<<<<" in sh("git -C %s diff" % REPO).stdout:
                sh("git -C %s checkout -- . && git -C %s clean -fdq" % (REPO, REPO))
                r.returncode = 1
            else:
                det["patch"] += " (three-way merged)"
                with open(os.path.join(d, "patch_head.diff"), "w") as f:
                    f.write(sh("git -C %s diff" % REPO).stdout)
        if r.returncode != 0:
            det["result"] = "patch does not apply on this tree"
        else:
            try:
                b = sh("cd %s && go build ./..." % REPO)
                if b.returncode != 0:
                    det["result"] = "does not build on this tree"
                else:
                    t0 = time.time()
                    try:
                        c = sh("cd %s && ./check %s --tier quick" % (V, meta["property"]), timeout=2400)
                        out, rc = c.stdout, c.returncode
                    except subprocess.TimeoutExpired as e:
                        out, rc = (e.stdout or ""), -1
                    whys = re.findall(r"^\s+why: (.*)$", out, re.M)
                    nviol = len(re.findall(r"^VIOLATION ", out, re.M))
                    det.update({"check": "./check %s --tier quick" % meta["property"], "exit": rc, "violation_lines": nviol,
                                "why": sorted(set(whys))[:4], "wall_s": round(time.time() - t0)})
                    det["result"] = "reported" if rc == 1 and nviol else ("inconclusive" if rc == 2 else "NOT reported" if rc == 0 else "rc=%s" % rc)
            finally:
                sh("git -C %s checkout -- . && git -C %s clean -fdq" % (REPO, REPO))
        meta["detection"] = det
        json.dump(meta, open(mp, "w"), indent=1)
        print(sid, det["result"], det.get("why", "")[:2] if det.get("why") else "", flush=True)
    sh("find %s/replays -name 'C*.json' -delete" % V)
    return 0


sys.exit(main())
