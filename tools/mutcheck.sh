#!/bin/sh
# usage: tools/mutcheck.sh <patch.diff> <Cnn> [tier]   -- apply a seeded change to /repo, run the check, undo.
set -u
patch=$1; prop=$2; tier=${3:-quick}
cd /verif
git -C /repo status --short | grep -q . && { echo "repo dirty"; exit 3; }
git -C /repo apply "$patch" || { echo "patch does not apply"; exit 3; }
./check "$prop" --tier "$tier" 2>&1 | grep -E "VIOLATION|KNOWN-FINDING|INCONCLUSIVE|why:" | head -12
rc=$?
git -C /repo checkout -- . 
git -C /repo status --short
exit 0
