module instrument

go 1.21
