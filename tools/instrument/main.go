// instrument generates a `go build -overlay` description for the CURRENT working tree of
// lesismal/nbio (nothing under /repo is modified):
//
//   - optional import rewriting in the selected packages ("sync" -> zzverif/vsync, "syscall" ->
//     zzverif/vsys, "sync/atomic" -> zzverif/vatomic, "time" -> zzverif/vtime), with a generated
//     pass-through file for every identifier of the original package that the tree uses and the shim
//     does not define itself (derived with go/types, so a changed tree that uses a new identifier
//     still builds);
//   - optional rewriting of `go f(x)` statements into vrt.Go(func(){ f(x) }) (arguments evaluated at
//     the statement, as Go specifies);
//   - virtual shim packages under <module>/zzverif/... taken from /verif/shims;
//   - one accessor file per package from /verif/access (read-only projections of private state,
//     build tag verif).
package main

import (
	"bytes"
	"encoding/json"
	"flag"
	"fmt"
	"go/ast"
	"go/build"
	"go/format"
	"go/importer"
	"go/parser"
	"go/token"
	"go/types"
	"os"
	"path/filepath"
	"sort"
	"strings"
)

const modPath = "github.com/lesismal/nbio"

var shimFor = map[string]string{ // original import path -> shim package (dir name under shims/)
	"sync":        "vsync",
	"syscall":     "vsys",
	"sync/atomic": "vatomic",
	"time":        "vtime",
}

// packages of the module that are instrumented (relative dirs)
var pkgDirs = []string{".", "timer", "taskpool", "nbhttp", "nbhttp/websocket", "mempool", "lmux"}

type overlay struct {
	Replace map[string]string
}

func must(err error) {
	if err != nil {
		fmt.Fprintln(os.Stderr, "instrument:", err)
		os.Exit(1)
	}
}

func main() {
	repo := flag.String("repo", "/repo", "")
	verif := flag.String("verif", "/verif", "")
	out := flag.String("out", "", "output dir")
	shim := flag.String("shim", "", "comma list of: sync,syscall,atomic,time,go ; suffix @dir[+dir] restricts to package dirs, e.g. sync@.+timer")
	noaccess := flag.Bool("noaccess", false, "")
	flag.Parse()
	if *out == "" {
		must(fmt.Errorf("-out required"))
	}
	must(os.MkdirAll(*out, 0o755))

	// what to rewrite where: kind -> set of dirs (nil = all)
	want := map[string]map[string]bool{}
	for _, s := range strings.Split(*shim, ",") {
		s = strings.TrimSpace(s)
		if s == "" {
			continue
		}
		kind, dirs := s, ""
		if i := strings.Index(s, "@"); i >= 0 {
			kind, dirs = s[:i], s[i+1:]
		}
		if kind == "atomic" {
			kind = "sync/atomic"
		}
		set := map[string]bool{}
		if dirs == "" {
			for _, d := range pkgDirs {
				set[d] = true
			}
		} else {
			for _, d := range strings.Split(dirs, "+") {
				set[d] = true
			}
		}
		want[kind] = set
	}

	ov := overlay{Replace: map[string]string{}}
	used := map[string]map[string]bool{} // original pkg -> identifiers used
	usesVrt := false

	fset := token.NewFileSet()
	for _, dir := range pkgDirs {
		abs := filepath.Join(*repo, dir)
		ents, err := os.ReadDir(abs)
		if err != nil {
			continue
		}
		for _, e := range ents {
			name := e.Name()
			if e.IsDir() || !strings.HasSuffix(name, ".go") || strings.HasSuffix(name, "_test.go") {
				continue
			}
			if ok, _ := build.Default.MatchFile(abs, name); !ok {
				continue // excluded by build constraints on this platform
			}
			path := filepath.Join(abs, name)
			src, err := os.ReadFile(path)
			must(err)
			f, err := parser.ParseFile(fset, path, src, parser.ParseComments)
			if err != nil {
				must(fmt.Errorf("parse %s: %v", path, err))
			}
			changed := false
			// import rewriting
			localOf := map[string]string{} // local name -> original path (only for rewritten ones)
			for _, imp := range f.Imports {
				p := strings.Trim(imp.Path.Value, `"`)
				sh, ok := shimFor[p]
				if !ok || want[p] == nil || !want[p][dir] {
					continue
				}
				local := filepath.Base(p)
				if imp.Name != nil {
					local = imp.Name.Name
				}
				localOf[local] = p
				imp.Path.Value = `"` + modPath + "/zzverif/" + sh + `"`
				if imp.Name == nil {
					imp.Name = ast.NewIdent(local)
				}
				changed = true
			}
			if len(localOf) > 0 {
				ast.Inspect(f, func(n ast.Node) bool {
					se, ok := n.(*ast.SelectorExpr)
					if !ok {
						return true
					}
					id, ok := se.X.(*ast.Ident)
					if !ok || id.Obj != nil {
						return true
					}
					if p, ok := localOf[id.Name]; ok {
						if used[p] == nil {
							used[p] = map[string]bool{}
						}
						used[p][se.Sel.Name] = true
					}
					return true
				})
			}
			// go statements
			if want["go"] != nil && want["go"][dir] {
				if rewriteGo(f) {
					changed = true
					usesVrt = true
					addImport(f, modPath+"/zzverif/vrt", "zzvrt")
				}
			}
			if !changed {
				continue
			}
			var buf bytes.Buffer
			must(format.Node(&buf, fset, f))
			dst := filepath.Join(*out, strings.ReplaceAll(filepath.Join(dir, name), "/", "__"))
			must(os.WriteFile(dst, buf.Bytes(), 0o644))
			ov.Replace[path] = dst
		}
	}
	_ = usesVrt

	// virtual shim packages: always map vrt (harness imports it) and every shim dir
	shimsRoot := filepath.Join(*verif, "shims")
	shimDirs, _ := os.ReadDir(shimsRoot)
	for _, sd := range shimDirs {
		if !sd.IsDir() {
			continue
		}
		files, _ := os.ReadDir(filepath.Join(shimsRoot, sd.Name()))
		for _, fe := range files {
			if strings.HasSuffix(fe.Name(), ".go") {
				ov.Replace[filepath.Join(*repo, "zzverif", sd.Name(), fe.Name())] = filepath.Join(shimsRoot, sd.Name(), fe.Name())
			}
		}
	}

	// pass-through files
	for orig, sh := range shimFor {
		names := used[orig]
		defined := definedIn(filepath.Join(shimsRoot, sh))
		if defined == nil {
			continue // shim does not exist (yet)
		}
		src := genPassthrough(orig, sh, names, defined)
		dst := filepath.Join(*out, "zz_passthrough_"+sh+".go")
		must(os.WriteFile(dst, src, 0o644))
		ov.Replace[filepath.Join(*repo, "zzverif", sh, "zz_passthrough.go")] = dst
	}

	// accessor files
	if !*noaccess {
		accRoot := filepath.Join(*verif, "access")
		ents, _ := os.ReadDir(accRoot)
		for _, e := range ents {
			// file name: <pkgdir with / replaced by __>.go  e.g. nbio.go -> ".", nbhttp__websocket.go
			if !strings.HasSuffix(e.Name(), ".go") {
				continue
			}
			stem := strings.TrimSuffix(e.Name(), ".go")
			dir := strings.ReplaceAll(stem, "__", "/")
			if dir == "nbio" {
				dir = "."
			}
			ov.Replace[filepath.Join(*repo, dir, "zz_verif_access.go")] = filepath.Join(accRoot, e.Name())
		}
	}

	b, _ := json.MarshalIndent(ov, "", " ")
	must(os.WriteFile(filepath.Join(*out, "overlay.json"), b, 0o644))
}

func addImport(f *ast.File, path, name string) {
	for _, imp := range f.Imports {
		if strings.Trim(imp.Path.Value, `"`) == path {
			return
		}
	}
	spec := &ast.ImportSpec{Name: ast.NewIdent(name), Path: &ast.BasicLit{Kind: token.STRING, Value: `"` + path + `"`}}
	decl := &ast.GenDecl{Tok: token.IMPORT, Specs: []ast.Spec{spec}}
	f.Decls = append([]ast.Decl{decl}, f.Decls...)
	f.Imports = append(f.Imports, spec)
}

// rewriteGo turns `go f(a, b)` into { zzf := f; zza0, zza1 := a, b; zzvrt.Go(func(){ zzf(zza0, zza1) }) }.
func rewriteGo(f *ast.File) bool {
	changed := false
	var fix func(list []ast.Stmt)
	conv := func(g *ast.GoStmt) ast.Stmt {
		call := g.Call
		var pre []ast.Stmt
		fun := call.Fun
		if _, isLit := fun.(*ast.FuncLit); !isLit {
			pre = append(pre, &ast.AssignStmt{Lhs: []ast.Expr{ast.NewIdent("zzf")}, Tok: token.DEFINE, Rhs: []ast.Expr{fun}})
			fun = ast.NewIdent("zzf")
		}
		var args []ast.Expr
		if len(call.Args) > 0 {
			var lhs []ast.Expr
			for i := range call.Args {
				id := ast.NewIdent(fmt.Sprintf("zza%d", i))
				lhs = append(lhs, id)
				args = append(args, ast.NewIdent(id.Name))
			}
			pre = append(pre, &ast.AssignStmt{Lhs: lhs, Tok: token.DEFINE, Rhs: call.Args})
		}
		inner := &ast.CallExpr{Fun: fun, Args: args, Ellipsis: call.Ellipsis}
		lit := &ast.FuncLit{Type: &ast.FuncType{Params: &ast.FieldList{}}, Body: &ast.BlockStmt{List: []ast.Stmt{&ast.ExprStmt{X: inner}}}}
		goCall := &ast.ExprStmt{X: &ast.CallExpr{Fun: &ast.SelectorExpr{X: ast.NewIdent("zzvrt"), Sel: ast.NewIdent("Go")}, Args: []ast.Expr{lit}}}
		return &ast.BlockStmt{List: append(pre, goCall)}
	}
	fix = func(list []ast.Stmt) {
		for i, s := range list {
			if g, ok := s.(*ast.GoStmt); ok {
				list[i] = conv(g)
				changed = true
			}
		}
	}
	ast.Inspect(f, func(n ast.Node) bool {
		switch b := n.(type) {
		case *ast.BlockStmt:
			fix(b.List)
		case *ast.CaseClause:
			fix(b.Body)
		case *ast.CommClause:
			fix(b.Body)
		case *ast.LabeledStmt:
			if g, ok := b.Stmt.(*ast.GoStmt); ok {
				b.Stmt = conv(g)
				changed = true
			}
		}
		return true
	})
	return changed
}

// definedIn returns the exported top-level names declared by the hand-written shim sources.
func definedIn(dir string) map[string]bool {
	ents, err := os.ReadDir(dir)
	if err != nil {
		return nil
	}
	res := map[string]bool{}
	fset := token.NewFileSet()
	for _, e := range ents {
		if !strings.HasSuffix(e.Name(), ".go") || e.Name() == "zz_passthrough.go" {
			continue
		}
		f, err := parser.ParseFile(fset, filepath.Join(dir, e.Name()), nil, 0)
		if err != nil {
			must(err)
		}
		for _, d := range f.Decls {
			switch dd := d.(type) {
			case *ast.FuncDecl:
				if dd.Recv == nil {
					res[dd.Name.Name] = true
				}
			case *ast.GenDecl:
				for _, s := range dd.Specs {
					switch ss := s.(type) {
					case *ast.TypeSpec:
						res[ss.Name.Name] = true
					case *ast.ValueSpec:
						for _, n := range ss.Names {
							res[n.Name] = true
						}
					}
				}
			}
		}
	}
	return res
}

func genPassthrough(orig, sh string, names map[string]bool, defined map[string]bool) []byte {
	var buf bytes.Buffer
	fmt.Fprintf(&buf, "// Code generated by /verif/tools/instrument. DO NOT EDIT.\n\npackage %s\n\n", sh)
	var list []string
	for n := range names {
		if !defined[n] {
			list = append(list, n)
		}
	}
	sort.Strings(list)
	if len(list) == 0 {
		return buf.Bytes()
	}
	alias := "zzorig"
	fmt.Fprintf(&buf, "import %s %q\n\n", alias, orig)
	imp := importer.ForCompiler(token.NewFileSet(), "source", nil)
	pkg, err := imp.Import(orig)
	must(err)
	for _, n := range list {
		obj := pkg.Scope().Lookup(n)
		if obj == nil {
			must(fmt.Errorf("identifier %s.%s used by the tree is unknown to go/types", orig, n))
		}
		switch obj.(type) {
		case *types.Const:
			fmt.Fprintf(&buf, "const %s = %s.%s\n", n, alias, n)
		case *types.TypeName:
			fmt.Fprintf(&buf, "type %s = %s.%s\n", n, alias, n)
		case *types.Func:
			fmt.Fprintf(&buf, "var %s = %s.%s\n", n, alias, n)
		case *types.Var:
			// package-level variable: forward by pointer is impossible for assignment; values only
			fmt.Fprintf(&buf, "var %s = %s.%s\n", n, alias, n)
		}
	}
	return buf.Bytes()
}
