#!/usr/bin/env python3
"""Regenerates the seeded-change detection table in DESIGN.md from /verif/seeded/*/meta.json."""
import json, os, re
V = os.path.dirname(os.path.dirname(os.path.abspath(__file__)))
rows = []
for sid in sorted(os.listdir(os.path.join(V, "seeded"))):
    mp = os.path.join(V, "seeded", sid, "meta.json")
    if not os.path.exists(mp):
        continue
    m = json.load(open(mp))
    d = m.get("detection", {})
    files = ", ".join(os.path.basename(f) for f in (m.get("files") or []))[:40]
    why = "; ".join(d.get("why") or [])[:150]
    note = m.get("note", "")
    rows.append("| %s | %s | %s | %s | %s |" % (sid, files, d.get("patch", "-").replace(".diff", ""), d.get("result", "not run"),
                                          (why or note).replace("|", "/")))
tab = "| change | touches | patch used | quick check of its property | first reasons printed / note |\n|---|---|---|---|---|\n" + "\n".join(rows)
n = sum(1 for r in rows if "| reported |" in r)
tab += "\n\n%d of %d seeded changes are reported by the quick tier of their property's check on the final tree.\n" % (n, len(rows))
p = os.path.join(V, "DESIGN.md")
s = open(p).read()
s = re.sub(r"<!-- SEEDED-TABLE-BEGIN -->.*<!-- SEEDED-TABLE-END -->", "<!-- SEEDED-TABLE-BEGIN -->\n" + tab + "<!-- SEEDED-TABLE-END -->", s, flags=re.S)
open(p, "w").write(s)
print(n, len(rows))
