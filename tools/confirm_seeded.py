#!/usr/bin/env python3
"""Confirm seeded changes delivered by sub-agents in a scratch worktree of /repo at the pinned commit:
patch applies, builds, the existing suite passes with it, the demonstration fails with it and passes
without it.  usage: confirm_seeded.py <incoming dir> <out json> [ids...]"""
import json, os, re, subprocess, sys, shutil

PINNED = "af767fa"
WT = "/tmp/wt_confirm"
ENV = dict(os.environ, GOFLAGS="-mod=mod", GOPROXY="off", GOSUMDB="off", GOTOOLCHAIN="local")


def sh(cmd, cwd=None, timeout=1500):
    p = subprocess.run(cmd, shell=True, cwd=cwd, env=ENV, stdout=subprocess.PIPE, stderr=subprocess.STDOUT, text=True, timeout=timeout)
    return p.returncode, p.stdout


def clean():
    sh("git checkout -- . && git clean -fdq", cwd=WT)


def main():
    inc, outp = sys.argv[1], sys.argv[2]
    only = sys.argv[3:]
    if not os.path.isdir(WT):
        rc, o = sh("git -C /repo worktree add -q --detach %s %s" % (WT, PINNED))
        assert rc == 0, o
    results = json.load(open(outp)) if os.path.exists(outp) else {}
    for prop in sorted(os.listdir(inc)):
        pd = os.path.join(inc, prop)
        if not os.path.isdir(pd):
            continue
        base = PINNED
        if os.path.exists(os.path.join(pd, "BASE")):
            base = open(os.path.join(pd, "BASE")).read().strip()
        sh("git checkout -q --detach %s" % base, cwd=WT)
        for m in sorted(os.listdir(pd)):
            if not os.path.isdir(os.path.join(pd, m)):
                continue
            key = "%s/%s" % (prop, m)
            if only and key not in only and prop not in only:
                continue
            if key in results and results[key].get("confirmed"):
                continue
            d = os.path.join(pd, m)
            meta = json.load(open(os.path.join(d, "meta.json")))
            cmd = meta.get("demo_cmd", "")
            mdest = re.search(r"cp \S*demo_test\.go\s+(\S+)", cmd)
            dest = mdest.group(1) if mdest else "seeded_demo/demo_test.go"
            if meta.get("demo_dest"):
                dest = meta["demo_dest"]
            dest = re.sub(r"^/tmp/wt[234]_C\d+/", "", dest)
            dest = re.sub(r"^/tmp/wt_C\d+/", "", dest)
            if dest.endswith("/"):
                dest += "demo_test.go"
            mrun = re.search(r"-run\s+'?\"?([^\s'\"]+)", cmd)
            run = mrun.group(1) if mrun else "TestSeeded"
            pkgdir = "./" + os.path.dirname(dest) + "/"
            r = {"dest": dest, "run": run}
            clean()
            rc, o = sh("git apply %s" % os.path.join(d, "patch.diff"), cwd=WT)
            r["applies"] = rc == 0
            if rc != 0:
                r["error"] = o[-500:]
                results[key] = r
                continue
            rc, o = sh("go build ./...", cwd=WT)
            r["builds"] = rc == 0
            rc, o = sh("flock /tmp/nbio_suite.lock go test -mod=mod -vet=off -count=1 -timeout 25m ./...", cwd=WT)
            r["suite_passes_with_mutant"] = rc == 0
            if rc != 0:
                r["suite_out"] = o[-800:]
            os.makedirs(os.path.join(WT, os.path.dirname(dest)), exist_ok=True)
            shutil.copy(os.path.join(d, "demo_test.go"), os.path.join(WT, dest))
            demo = "go test -mod=mod -vet=off -count=1 -timeout 300s -run '%s' %s" % (run, pkgdir)
            if pkgdir == ".//":
                demo = "flock /tmp/nbio_suite.lock " + demo.replace(".//", ".")
            rc, o = sh(demo, cwd=WT)
            r["demo_fails_with_mutant"] = rc != 0 and ("FAIL" in o)
            r["demo_out_mutant"] = o[-400:]
            sh("git checkout -- .", cwd=WT)
            rc, o = sh(demo, cwd=WT)
            r["demo_passes_without"] = rc == 0
            if rc != 0:
                r["demo_out_clean"] = o[-400:]
            r["demo_cmd"] = demo
            r["confirmed"] = all(r.get(k) for k in ("applies", "builds", "suite_passes_with_mutant", "demo_fails_with_mutant", "demo_passes_without"))
            results[key] = r
            clean()
            json.dump(results, open(outp, "w"), indent=1)
            print(key, "confirmed" if r["confirmed"] else "NOT CONFIRMED", flush=True)
    clean()
    sh("git -C /repo worktree remove --force %s" % WT)
    json.dump(results, open(outp, "w"), indent=1)


if __name__ == "__main__":
    main()
