#!/usr/bin/env python3
"""Regenerates /verif/MANIFEST.json from the table below (one entry per claimed property)."""
import json, os
V = os.path.dirname(os.path.dirname(os.path.abspath(__file__)))
props = [json.loads(l) for l in open(os.path.join(V, "properties.jsonl"))]

TECH = "explicit TLA+ spec model-checked with TLC; behaviours replayed on / traces recorded from the real Go code; TLC validates the traces against a TLA+ property monitor"
CLAIMED = {
 "C01": dict(design="4/C01", text="NbConn.tla (write path of nbio.Conn + epoll registration + kernel send buffer, one action per lock acquisition / syscall) is explored exhaustively by TLC for 3 epoll modes x tcp/unix x writes from goroutines and from inside OnOpen, 1-2 writers (Integrity, LeftExact, Bounded, NoStall hold). Its state graphs are turned into replay scripts executed step by step on the real Conn/poller against an in-process model kernel (every short write / EAGAIN position the graph contains), with lazy continuation after Unlock and after syscall returns; a real-socket leg mixes Write/Writev/Sendfile from several goroutines, OnOpen, OnData and DialAsync connections in all modes. The peer/kernel decodes self-describing payloads; TLC validates every trace against StreamMon.tla (whole-length returns, contiguity, no interleaving, call order, nothing missing at quiescence), which alone decides.",
             note="Trusted: TLC, the model kernel (shims/vsys; its semantics are the ones written in NbConn.tla), the vrt scheduler, the payload decoder. Writev/Sendfile are covered by the real-socket leg only (not yet in the TLA+ model). kqueue / std builds are out of reach."),
 "C04": dict(design="4/C04", text="Same specification and replay as C01 with the quiescence clause: every script ends with the peer draining everything and every library thread run until nothing is enabled; the monitor then requires every accepted byte delivered while the connection is open (NoStall in TLC; 'backlog stalled' in traces). Covers LT/ET/ET+ONESHOT, writes from goroutines, OnOpen (before EPOLL_CTL_ADD), OnData and dialed connections (real leg), all interleavings of writer / poller flush / re-arm at lock+syscall grain for the modelled configurations.",
             note="Liveness on real executions is observed as quiescence of the cooperative replay (exact) and as 3 s without progress on real sockets; true liveness (Drains) is proved on the model only."),
 "C05": dict(design="4/C05", text="TLC explores every state of HeadDrain.tla (the hand-over protocol of Conn.Execute/MustExecute at critical-section grain, 2-3 submitters x 1-3 jobs, inline and goroutine executors, racing Close; 8 invariants + liveness). The state graph is turned into replay scripts (all maximal paths when few, else an edge tour plus seeded walks) executed on the real nbio.Conn under a cooperative scheduler (locks, go statements and job boundaries are yield points; code after an Unlock is continued lazily or eagerly). A free-running leg records 8 submitters x 20 jobs per connection under three executors and GOMAXPROCS 1/4/16. Every trace is validated by TLC against FifoMon.tla, which alone decides.",
             note="Trusted: TLC, the vrt scheduler / vsync shim (thin wrapper around sync.Mutex), the trace recorder. HTTP/WebSocket handler serialization is checked by the C10/C14 legs."),
 "C19": dict(design="4/C19", text="TaskPool.tla (atomic counter, bounded channel, workers that drain then exit, dispatcher, Stop) is model-checked by TLC (AtMostOnce, WithinBound, ExactlyOnceAtIdle, CapacityRecovers, CounterSane; with the repairs switched off TLC reproduces the counter leak). The real pool is recorded under GOMAXPROCS 1/4/16 for bounds 2..64: bursts above the bound, full queue, panicking tasks, submissions racing Stop, and a capacity probe (a barrier of K0 mutually waiting tasks, K0 measured on a fresh pool, must complete again after overload + idle); traces are validated by TLC against PoolMon.tla. Timer.Async (the engine's asynchronous queue) is HeadDrain.tla with Variant=async: every path/edge of its state graph is replayed on the real timer.Timer under the cooperative scheduler and validated against FifoMon.tla; a free-running leg queues up to 3000 functions behind a blocked head (list-shrinking branch) and is validated against SeqFifoMon.tla.",
             note="Channels are not shimmed, so the task pool's interleavings are those the Go scheduler produced; exhaustive interleaving coverage exists for the model and for Timer.Async only. IOTaskPool is covered through C02."),
 "C17": dict(design="4/C17", text="NbConn.tla with MaxWB > 0 (LeftExact, Bounded checked by TLC); fill / overflow / drain / refill programs replayed on the real Conn against the byte-exact model kernel with eager returns, so the monitor knows the true backlog (accepted minus taken by the kernel) at every call: overflow only if backlog+size > bound, acceptance only if the held backlog stays <= bound, overflow closes the connection. A phased real-socket leg (pause peer, drain, pause again; Write/Writev/Sendfile; syscall recorder for kernel-accepted bytes) checks that the full budget is available again after a drain.",
             note="Bytes of queued Sendfile entries are not counted as held backlog (they are not buffered in memory; the code never counted them). Trusted: model kernel, syscall recorder."),
}
checks = []
for pid in sorted(CLAIMED):
    c = CLAIMED[pid]
    checks.append({"property_id": pid, "quick_cmd": "./check %s --tier quick" % pid, "thorough_cmd": "./check %s --tier thorough" % pid,
                   "evidence_file": "/verif/evidence/%s.json" % pid, "replay_cmd_template": "./check %s --replay {path}" % pid,
                   "engine": "tlc+vrt", "level_claimed": {"category": "model_checking", "text": c["text"], "design_ref": c["design"]},
                   "level_note": c["note"], "technique": c.get("technique", TECH)})
na = [{"property_id": p["id"], "reason": "check not built yet in this session (work in progress; DESIGN.md section 4 has the planned TLA+ model and binding)"}
      for p in props if p["id"] not in CLAIMED]
m = {"version": 1,
     "setup_cmd": "cd /verif && GOFLAGS=-mod=mod GOPROXY=off GOSUMDB=off GOTOOLCHAIN=local sh -c 'mkdir -p bin && cd tools/instrument && go build -o ../../bin/instrument .'",
     "hooks": {"guard": "verif", "enable": "go build -tags verif -overlay <overlay.json generated by /verif/bin/instrument from /repo's current working tree> (nothing under /repo is modified: shim packages and accessor files are virtual overlay files)",
               "baseline_off_cmd": "cd /repo && go test -mod=mod -vet=off -count=1 -timeout 25m ./...", "source_commits": [], "add_only": True},
     "engines": [{"name": "tlc+vrt", "path": "/verif/check", "serves_properties": sorted(CLAIMED),
                  "kind_free_text": "TLA+ specs checked with TLC; TLC state graphs replayed on the real Go code under a cooperative scheduler and a model kernel (build overlay); recorded traces validated by TLC against TLA+ property monitors"}],
     "checks": checks, "not_applicable": na,
     "notes": "See DESIGN.md. Exit codes: 0 held / 1 VIOLATION / 2 inconclusive (infrastructure). Repairs of genuine defects are 'fix:' commits in /repo, listed in known_findings.json."}
json.dump(m, open(os.path.join(V, "MANIFEST.json"), "w"), indent=1)
print("claimed:", sorted(CLAIMED))
