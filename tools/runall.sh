#!/bin/sh
# run every claimed check (quick tier) on the current tree; prints one line per property
cd /verif
export GOFLAGS=-mod=mod GOPROXY=off GOSUMDB=off GOTOOLCHAIN=local
for p in $(python3 -c "import json;print(' '.join(c['property_id'] for c in json.load(open('MANIFEST.json'))['checks']))"); do
  if [ -n "$1" ] && ! echo "$@" | grep -qw "$p"; then continue; fi
  s=$(date +%s)
  timeout 1800 ./check $p --tier ${TIER:-quick} > /tmp/runall_$p.log 2>&1
  rc=$?
  e=$(date +%s)
  echo "$p rc=$rc $((e-s))s $(grep -c VIOLATION /tmp/runall_$p.log) violations $(grep -c KNOWN-FINDING /tmp/runall_$p.log) known"
done
