#!/usr/bin/env python3
"""Builds /verif/seeded/<Cnn>-<mK>/ (patch.diff, demo_test.go, meta.json) from the sub-agents' deliveries
(seeded_incoming/, gitignored) and the confirmation log written by tools/confirm_seeded.py."""
import json, os, shutil, sys
V = os.path.dirname(os.path.dirname(os.path.abspath(__file__)))
inc = os.path.join(V, "seeded_incoming")
conf = json.load(open(os.path.join(inc, "confirm.json")))
ports = {"C02/m2": "c02_m2_port.diff", "C04/m1": "c04_m1_port.diff", "C09/m1": "c09_m1_port.diff",
         "C12/m2": "c12_m2_port.diff", "C18/m2": "c18_m2_port.diff"}
pinned = "af767fa"
items = [(k, c, inc, "") for k, c in sorted(conf.items())]
# second round (fresh sub-agents on the repaired tree): raw deliveries in seeded_incoming/round2
inc2 = os.path.join(inc, "round2")
c2p = os.path.join(inc, "confirm2.json")
if os.path.exists(c2p) and os.path.isdir(inc2):
    items += [(k, c, inc2, "r2") for k, c in sorted(json.load(open(c2p)).items())]
inc3 = os.path.join(inc, "round3")
c3p = os.path.join(inc, "confirm3.json")
if os.path.exists(c3p) and os.path.isdir(inc3):
    items += [(k, c, inc3, "r3") for k, c in sorted(json.load(open(c3p)).items())]
inc4 = os.path.join(inc, "round4")
c4p = os.path.join(inc, "confirm4.json")
if os.path.exists(c4p) and os.path.isdir(inc4):
    items += [(k, c, inc4, "r4") for k, c in sorted(json.load(open(c4p)).items())]
for key, c, srcroot, tag in items:
    prop, m = key.split("/")
    src = os.path.join(srcroot, prop, m)
    if not c.get("confirmed"):
        continue
    dst = os.path.join(V, "seeded", "%s-%s%s" % (prop, tag, m.replace("extra_", "")))
    os.makedirs(dst, exist_ok=True)
    shutil.copy(os.path.join(src, "patch.diff"), os.path.join(dst, "patch.diff"))
    for f in os.listdir(src):
        if f.endswith("_test.go"):
            shutil.copy(os.path.join(src, f), os.path.join(dst, "demo_test.go"))
    meta = json.load(open(os.path.join(src, "meta.json")))
    base = pinned
    bf = os.path.join(srcroot, prop, "BASE")
    if os.path.exists(bf):
        base = open(bf).read().strip()
    out = {"property": prop, "id": "%s-%s%s" % (prop, tag, m.replace("extra_", "")), "summary": meta.get("summary"), "needs": meta.get("needs"),
           "files": meta.get("files"), "base_commit": base,
           "demo": {"file": "demo_test.go", "install_as": c.get("dest"), "cmd": c.get("demo_cmd")},
           "confirmed": {"by": "tools/confirm_seeded.py in a scratch worktree at base_commit", "patch_applies": c.get("applies"), "builds": c.get("builds"),
                         "existing_suite_passes_with_change": c.get("suite_passes_with_mutant"),
                         "demo_fails_with_change": c.get("demo_fails_with_mutant"), "demo_passes_without": c.get("demo_passes_without")}}
    pf = ports.get(key)
    if pf and os.path.exists(os.path.join("/tmp/mymut", pf)):
        shutil.copy(os.path.join("/tmp/mymut", pf), os.path.join(dst, "patch_head.diff"))
    if os.path.exists(os.path.join(dst, "patch_head.diff")):
        out["patch_head"] = "patch_head.diff: the same change re-applied by hand on the repaired tree (the original no longer applies textually)"
    old = os.path.join(dst, "meta.json")
    if os.path.exists(old):
        prev = json.load(open(old))
        if "detection" in prev:
            out["detection"] = prev["detection"]
    json.dump(out, open(old, "w"), indent=1)
print("seeded:", len(os.listdir(os.path.join(V, "seeded"))))
